package main

// Instantiation of quantified assumptions on program index terms. E-matching cannot use triggers
// that contain arithmetic (slice offset + index), so every universally quantified assumption over
// integer index variables is additionally instantiated with the index terms the program and the
// contracts actually use (and, for two variables, with all pairs of them). Instances of a formula
// that occurs positively are logical consequences of it, so this adds no assumption.

import (
	"strings"
)

type quantAssume struct {
	text   string // the whole assumption
	start  int    // position of the "(forall" subterm in text
	end    int    // end (exclusive)
	vars   []string
	body   string
	doneOn map[string]bool
}

const maxIdxTerms = 36

// noteIndexTerm registers an index term and instantiates the pending quantified assumptions with it.
func (c *FuncCtx) noteIndexTerm(t Term) {
	if !c.sc.mathInts && t.Sort != bvSort(64) {
		return
	}
	if c.sc.mathInts && !isMathIntSort(t.Sort) {
		return
	}
	if strings.Contains(t.S, "q_") { // mentions a bound variable
		return
	}
	if c.idxSeen == nil {
		c.idxSeen = map[string]bool{}
	}
	if c.idxSeen[t.S] || len(c.idxTerms) >= maxIdxTerms {
		return
	}
	c.idxSeen[t.S] = true
	c.idxTerms = append(c.idxTerms, t)
	for _, q := range c.quants {
		c.instantiate(q)
	}
}

// noteAssumption looks for positive foralls over index variables in an assumption.
func (c *FuncCtx) noteAssumption(text string) {
	if !strings.Contains(text, "(forall ((q_") {
		return
	}
	idxSort := string(c.sc.idxSort())
	for _, occ := range positiveForalls(text) {
		sub := text[occ[0]:occ[1]]
		vars, sorts, body, ok := splitForall(sub)
		if !ok || len(vars) > 2 {
			continue
		}
		allIdx := true
		for _, s := range sorts {
			if s != idxSort && !(c.sc.mathInts && isMathIntSort(Sort(s))) {
				allIdx = false
			}
		}
		if !allIdx {
			continue
		}
		q := &quantAssume{text: text, start: occ[0], end: occ[1], vars: vars, body: body, doneOn: map[string]bool{}}
		c.quants = append(c.quants, q)
		c.instantiate(q)
	}
}

func (c *FuncCtx) instantiate(q *quantAssume) {
	emit := func(key string, body string) {
		if q.doneOn[key] {
			return
		}
		q.doneOn[key] = true
		c.sc.rawLine("(assert " + q.text[:q.start] + body + q.text[q.end:] + ")")
	}
	switch len(q.vars) {
	case 1:
		for _, t := range c.idxTerms {
			emit(t.S, replaceVar(q.body, q.vars[0], t.S))
		}
	case 2:
		// pairs are only instantiated with an obligation's own skolem constants (skolemizeGoal):
		// all pairs of index terms would flood the solver with atoms
	}
}

func replaceVar(body, v, t string) string {
	// bound variable names are unique (q_<name>_<n>) and delimited by space or parenthesis
	var b strings.Builder
	i := 0
	for i < len(body) {
		j := strings.Index(body[i:], v)
		if j < 0 {
			b.WriteString(body[i:])
			break
		}
		j += i
		endOK := j+len(v) >= len(body) || body[j+len(v)] == ' ' || body[j+len(v)] == ')'
		startOK := j == 0 || body[j-1] == ' ' || body[j-1] == '('
		b.WriteString(body[i:j])
		if startOK && endOK {
			b.WriteString(t)
		} else {
			b.WriteString(v)
		}
		i = j + len(v)
	}
	return b.String()
}

// splitForall parses "(forall ((v s) ...) body)".
func splitForall(s string) (vars, sorts []string, body string, ok bool) {
	if !strings.HasPrefix(s, "(forall (") && !strings.HasPrefix(s, "(exists (") {
		return
	}
	i := len("(forall ")
	end := matchParen(s, i)
	if end < 0 {
		return
	}
	decls := s[i+1 : end-1]
	k := 0
	for k < len(decls) {
		if decls[k] != '(' {
			k++
			continue
		}
		e := matchParen(decls, k)
		if e < 0 {
			return
		}
		d := decls[k+1 : e-1]
		sp := strings.IndexByte(d, ' ')
		if sp < 0 {
			return
		}
		vars = append(vars, d[:sp])
		sorts = append(sorts, strings.TrimSpace(d[sp+1:]))
		k = e
	}
	body = strings.TrimSpace(s[end : len(s)-1])
	return vars, sorts, body, true
}

// matchParen returns the index just after the parenthesis closing the one at s[i].
func matchParen(s string, i int) int {
	depth := 0
	inStr := false
	for k := i; k < len(s); k++ {
		switch s[k] {
		case '"':
			inStr = !inStr
		case '(':
			if !inStr {
				depth++
			}
		case ')':
			if !inStr {
				depth--
				if depth == 0 {
					return k + 1
				}
			}
		}
	}
	return -1
}

// positiveForalls returns the [start,end) ranges of forall subterms occurring positively in text
// (under and / or / the consequent of =>; polarity flips under not and in antecedents; anything
// else stops the descent).
func positiveForalls(text string) [][2]int { return positiveQuants(text, "forall") }

// positiveQuants: the same for an arbitrary quantifier keyword ("forall" / "exists").
func positiveQuants(text string, kw string) [][2]int {
	var out [][2]int
	var walk func(start int, positive bool)
	walk = func(start int, positive bool) {
		if start >= len(text) || text[start] != '(' {
			return
		}
		end := matchParen(text, start)
		if end < 0 {
			return
		}
		// operator
		k := start + 1
		for k < end && text[k] != ' ' && text[k] != '(' && text[k] != ')' {
			k++
		}
		op := text[start+1 : k]
		args := func() []int {
			var as []int
			p := k
			for p < end-1 {
				if text[p] == ' ' {
					p++
					continue
				}
				if text[p] == '(' {
					as = append(as, p)
					e := matchParen(text, p)
					if e < 0 {
						return as
					}
					p = e
					continue
				}
				// atom
				as = append(as, p)
				for p < end-1 && text[p] != ' ' {
					p++
				}
			}
			return as
		}
		switch op {
		case kw:
			if positive {
				out = append(out, [2]int{start, end})
			}
		case "and", "or":
			for _, a := range args() {
				walk(a, positive)
			}
		case "not":
			for _, a := range args() {
				walk(a, !positive)
			}
		case "=>":
			as := args()
			for i, a := range as {
				if i == len(as)-1 {
					walk(a, positive)
				} else {
					walk(a, !positive)
				}
			}
		}
	}
	walk(0, true)
	return out
}

// skolemizeGoal replaces positive foralls over index variables in a goal by fresh constants and
// returns the instances of the pending quantified assumptions on those constants (local to the
// obligation: they are not added to the script).
func (c *FuncCtx) skolemizeGoal(text string) (string, []string) {
	t, extra, sks := c.skolemizeGoal0(text)
	// existentials in the local assumption instances get witnesses (fresh constants), which are then
	// candidates for the goal's own existentials (the invariant's witness for element k is the
	// goal's witness for element k)
	if strings.Contains(t, "(exists ((q_") {
		idxSort := string(c.sc.idxSort())
		for li, line := range extra {
			if !strings.Contains(line, "(exists ((q_") || !strings.HasPrefix(line, "(assert ") {
				continue
			}
			inner := line[len("(assert ") : len(line)-1]
			for round := 0; round < 6; round++ {
				occs := positiveQuants(inner, "exists")
				done := true
				for _, occ := range occs {
					vars, sorts, body, ok := splitForall(inner[occ[0]:occ[1]])
					if !ok {
						continue
					}
					allIdx := true
					for _, so := range sorts {
						if so != idxSort && !(c.sc.mathInts && isMathIntSort(Sort(so))) {
							allIdx = false
						}
					}
					if !allIdx {
						continue
					}
					var tuple []Term
					for i, v := range vars {
						w := c.sc.fresh("wit_"+strings.TrimPrefix(v, "q_"), Sort(sorts[i]))
						body = replaceVar(body, v, w.S)
						tuple = append(tuple, w)
					}
					if len(tuple) == 1 {
						sks = append(sks, tuple[0])
					} else {
						c.witTuples = append(c.witTuples, tuple)
					}
					inner = inner[:occ[0]] + body + inner[occ[1]:]
					done = false
					break
				}
				if done {
					break
				}
			}
			extra[li] = "(assert " + inner + ")"
		}
	}
	out := c.instantiateGoalExists(t, sks)
	c.witTuples = nil
	return out, extra
}

// instantiateGoalExists: a positive existential over index variables in a goal is offered ground
// witnesses (the skolem constants of the goal and the index terms the program uses):
// exists x. P(x) is replaced by the equivalent P(t1) or ... or P(tn) or exists x. P(x).
func (c *FuncCtx) instantiateGoalExists(text string, sks []Term) string {
	if !strings.Contains(text, "(exists ((q_") {
		return text
	}
	idxSort := string(c.sc.idxSort())
	pos := 0
	for round := 0; round < 8; round++ {
		var occ *[2]int
		for _, o := range positiveQuants(text, "exists") {
			if o[0] >= pos {
				oo := o
				occ = &oo
				break
			}
		}
		if occ == nil {
			break
		}
		sub := text[occ[0]:occ[1]]
		vars, sorts, body, ok := splitForall(sub)
		allIdx := ok && len(vars) <= 2
		for _, s := range sorts {
			if s != idxSort && !(c.sc.mathInts && isMathIntSort(Sort(s))) {
				allIdx = false
			}
		}
		if !allIdx {
			pos = occ[1]
			continue
		}
		cands := append([]Term{}, sks...)
		recent := c.idxTerms
		limit := maxIdxTerms
		if len(vars) == 2 {
			limit = 8
		}
		if len(recent) > limit {
			recent = recent[len(recent)-limit:]
		}
		cands = append(cands, recent...)
		var insts []string
		seen := map[string]bool{}
		addInst := func(b string) {
			if !seen[b] {
				seen[b] = true
				insts = append(insts, b)
			}
		}
		switch len(vars) {
		case 1:
			for _, t := range cands {
				addInst(replaceVar(body, vars[0], t.S))
			}
		case 2:
			for _, tu := range c.witTuples {
				if len(tu) == 2 {
					addInst(replaceVar(replaceVar(body, vars[0], tu[0].S), vars[1], tu[1].S))
				}
			}
			few := c.idxTerms
			if len(few) > 4 {
				few = few[len(few)-4:]
			}
			for _, a := range few {
				for _, b := range few {
					addInst(replaceVar(replaceVar(body, vars[0], a.S), vars[1], b.S))
				}
			}
		}
		if len(insts) == 0 {
			pos = occ[1]
			continue
		}
		repl := "(or " + strings.Join(insts, " ") + " " + sub + ")"
		text = text[:occ[0]] + repl + text[occ[1]:]
		pos = occ[0] + len(repl)
	}
	return text
}

func (c *FuncCtx) skolemizeGoal0(text string) (string, []string, []Term) {
	if !strings.Contains(text, "(forall ((q_") {
		return text, nil, nil
	}
	idxSort := string(c.sc.idxSort())
	var sks []Term
	for round := 0; round < 4; round++ {
		occs := positiveForalls(text)
		changed := false
		for _, occ := range occs {
			sub := text[occ[0]:occ[1]]
			vars, sorts, body, ok := splitForall(sub)
			if !ok {
				continue
			}
			allIdx := true
			for _, s := range sorts {
				if s != idxSort && !(c.sc.mathInts && isMathIntSort(Sort(s))) {
					allIdx = false
				}
			}
			if !allIdx {
				continue
			}
			for i, v := range vars {
				sk := c.sc.fresh("sk_"+strings.TrimPrefix(v, "q_"), Sort(sorts[i]))
				body = replaceVar(body, v, sk.S)
				sks = append(sks, sk)
			}
			text = text[:occ[0]] + body + text[occ[1]:]
			changed = true
			break // positions shifted: rescan
		}
		if !changed {
			break
		}
	}
	if len(sks) == 0 {
		return text, nil, nil
	}
	base := append([]Term{}, sks...)
	// local instances: every pending quantifier on the skolems (and skolem x index-term pairs)
	var extra []string
	seen := map[string]bool{}
	add := func(q *quantAssume, body string) {
		line := "(assert " + q.text[:q.start] + body + q.text[q.end:] + ")"
		if !seen[line] {
			seen[line] = true
			extra = append(extra, line)
		}
	}
	// neighbours of the skolem constants (shifted suffixes: element k of the new list is element
	// k-1 of the old one)
	one := c.sc.idxLit(1)
	for _, sk := range append([]Term{}, sks...) {
		sks = append(sks, c.sub(sk, one), c.add(sk, one))
	}
	all := append(append([]Term{}, sks...), c.idxTerms...)
	for _, q := range c.quants {
		switch len(q.vars) {
		case 1:
			for _, sk := range sks {
				add(q, replaceVar(q.body, q.vars[0], sk.S))
			}
		case 2:
			for _, sk := range sks {
				for _, t := range all {
					add(q, replaceVar(replaceVar(q.body, q.vars[0], sk.S), q.vars[1], t.S))
					add(q, replaceVar(replaceVar(q.body, q.vars[0], t.S), q.vars[1], sk.S))
				}
			}
		}
	}
	return text, extra, base
}
