package main

// Calls: builtins, contracts (assert requires / havoc / assume ensures), pure functions as UFs,
// call events, sink obligations, inlining of closures under higher-order summaries, defers.

import (
	"os"
	"fmt"
	"go/token"
	"go/types"
	"sort"
	"strings"

	"golang.org/x/tools/go/ssa"
)

type effect int

const (
	effNone effect = iota
	effArgs
	effAll
)

// calleeKey returns the full key of the callee of a call, or "" if it is a builtin / unknown dynamic call.
func (v *Verifier) calleeKey(com *ssa.CallCommon) string {
	if com.IsInvoke() {
		return "(" + types.TypeString(com.Value.Type(), nil) + ")." + com.Method.Name()
	}
	if _, ok := com.Value.(*ssa.Builtin); ok {
		return ""
	}
	if fn := com.StaticCallee(); fn != nil {
		return fnKey(fn)
	}
	// dynamic call through a named variable (`next(ctx)`) or a struct field (`m.skipper(ctx)`):
	// addressable in contracts as `call next #n` / `call .skipper #n`
	if ld, ok := com.Value.(*ssa.UnOp); ok && ld.Op == token.MUL {
		switch a := ld.X.(type) {
		case *ssa.Alloc:
			if a.Comment != "" {
				return a.Comment
			}
		case *ssa.FreeVar:
			return a.Name()
		case *ssa.FieldAddr:
			if st, ok := under(a.X.Type()).(*types.Pointer).Elem().Underlying().(*types.Struct); ok {
				return "." + st.Field(a.Field).Name()
			}
		case *ssa.Global:
			// call through a package-level function variable
			return a.Pkg.Pkg.Path() + "." + a.Name()
		}
	}
	if p, ok := com.Value.(*ssa.Parameter); ok {
		return p.Name()
	}
	return ""
}

func fnKey(fn *ssa.Function) string {
	if fn.Parent() != nil {
		p := fn.Parent()
		suffix := strings.TrimPrefix(fn.Name(), p.Name())
		return fnKey(p) + suffix
	}
	if o := fn.Origin(); o != nil {
		return o.String()
	}
	return fn.String()
}

func fnPkgPath(fn *ssa.Function) string {
	for fn.Parent() != nil {
		fn = fn.Parent()
	}
	if o := fn.Origin(); o != nil {
		fn = o
	}
	if fn.Pkg != nil {
		return fn.Pkg.Pkg.Path()
	}
	if fn.Signature.Recv() != nil {
		t := fn.Signature.Recv().Type()
		if p, ok := t.(*types.Pointer); ok {
			t = p.Elem()
		}
		if n, ok := t.(*types.Named); ok && n.Obj().Pkg() != nil {
			return n.Obj().Pkg().Path()
		}
	}
	if fn.Object() != nil && fn.Object().Pkg() != nil {
		return fn.Object().Pkg().Path()
	}
	return ""
}

func keyPkgPath(key string) string {
	k := strings.TrimPrefix(strings.TrimPrefix(key, "("), "*")
	slash := strings.LastIndex(k, "/")
	dot := strings.Index(k[slash+1:], ".")
	if dot < 0 {
		return ""
	}
	return k[:slash+1+dot]
}

// findContract looks a contract up by the callee's full key.
// from is the package of the function under verification: among several trusted summaries of the
// same callee, the one that package states itself wins (what a package assumes about its collaborators
// is part of its own contract file, not of whichever package happened to be loaded first).
func (v *Verifier) findContract(key, from string) *Contract {
	if key == "" {
		return nil
	}
	ck := from + "|" + key
	if c, ok := v.conCache[ck]; ok {
		return c
	}
	var found *Contract
	pkg := keyPkgPath(key)
	cands := candidateKeys(key, pkg)
	var matches []*Contract
	for i, k := range cands {
		unqualified := i == len(cands)-1 && len(cands) > 1
		for _, c := range v.cs.ByKey[normKey(k)] {
			// the unqualified form only matches contracts declared in the callee's own package
			if unqualified && c.Pkg != pkg {
				continue
			}
			matches = append(matches, c)
		}
	}
	// prefer the contract declared (and verified) in the callee's own package over summaries
	// other packages assume about it
	for _, c := range matches {
		if c.Pkg == pkg && !c.Trusted && !c.External {
			found = c
			break
		}
	}
	if found == nil {
		for _, c := range matches {
			if c.Pkg == from && from != "" {
				found = c
				break
			}
		}
	}
	if found == nil {
		// then a summary stated in the callee's own package, then any
		for _, c := range matches {
			if c.Pkg == pkg {
				found = c
				break
			}
		}
	}
	if found == nil && len(matches) > 0 {
		found = matches[0]
	}
	if found == nil {
		// pattern contracts: "pkg.*", "(pkg.T).*", "(*pkg.T).*"
		for _, pc := range v.cs.Pattern {
			prefix := strings.TrimSuffix(normKey(pc.Key), "*")
			for _, k := range cands {
				if strings.HasPrefix(normKey(k), prefix) {
					// "pkg.*" must not match methods "(pkg.T).M" and vice versa: prefix match is exact on the leading part
					found = pc
					break
				}
			}
			if found != nil {
				break
			}
		}
	}
	v.conCache[ck] = found
	return found
}

func (c *FuncCtx) fromPkg() string {
	if c.topCon != nil {
		return c.topCon.Pkg
	}
	return ""
}

func (fr *Frame) calleeEffects(com *ssa.CallCommon) effect {
	key := fr.c.v.calleeKey(com)
	con := fr.c.v.findContract(key, fr.c.fromPkg())
	if con != nil {
		if con.Pure || con.Benign || modifiesNothing(con) || con.AssumeBenign {
			return effNone
		}
		if modifiesArgs(con) || len(modifiesPointees(con)) > 0 {
			return effArgs
		}
		return effAll
	}
	return effAll
}

func modifiesArgs(con *Contract) bool {
	return len(con.Modifies) == 1 && con.Modifies[0] == "args"
}

// modifiesPointees: `modifies *p, *q`: only the objects the named pointer parameters point to change.
func modifiesPointees(con *Contract) []string {
	var out []string
	for _, m := range con.Modifies {
		if strings.HasPrefix(m, "*") {
			out = append(out, strings.TrimSpace(m[1:]))
		} else {
			return nil
		}
	}
	return out
}

func modifiesNothing(con *Contract) bool {
	return len(con.Modifies) == 1 && con.Modifies[0] == "nothing"
}

type callArgs struct {
	vals  []*Val
	terms []Term
	types []types.Type
	names []string
	outs  []copyBack
	// pointers passed inside interface values (json.Unmarshal(data, &v)): argument index -> pointer
	ifacePtr  map[int]Term
	ifaceElem map[int]types.Type
	ifaceOpaque bool // an interface argument of unknown origin (may hold a pointer)
	ifaceSlice  map[int]TV
}

type copyBack struct {
	l *LVal
	p Term
}

func (fr *Frame) doCall(in ssa.Instruction, com *ssa.CallCommon, st *State, isGo bool) (*Val, error) {
	c := fr.c
	if b, ok := com.Value.(*ssa.Builtin); ok {
		return fr.builtin(in, b, com, st)
	}
	pos := in.Pos()
	sig := com.Signature()
	// arguments (receiver first in invoke mode)
	ca := &callArgs{}
	var argVals []ssa.Value
	if com.IsInvoke() {
		argVals = append(argVals, com.Value)
	}
	argVals = append(argVals, com.Args...)
	ca.ifacePtr, ca.ifaceElem = map[int]Term{}, map[int]types.Type{}
	for ai, a := range argVals {
		r := fr.val(a, st)
		if _, isIface := under(a.Type()).(*types.Interface); isIface && !(com.IsInvoke() && ai == 0) {
			if mi, ok := a.(*ssa.MakeInterface); ok {
				if pt, ok := under(mi.X.Type()).(*types.Pointer); ok {
					ca.ifacePtr[ai] = fr.term(mi.X, st)
					ca.ifaceElem[ai] = pt.Elem()
				} else if _, ok := under(mi.X.Type()).(*types.Slice); ok {
					// a slice inside an interface (sort.Slice(x, less)): its elements may change
					if ca.ifaceSlice == nil {
						ca.ifaceSlice = map[int]TV{}
					}
					ca.ifaceSlice[ai] = TV{T: fr.term(mi.X, st), Ty: mi.X.Type()}
				}
			} else if _, isConst := a.(*ssa.Const); !isConst {
				ca.ifaceOpaque = true
			}
		}
		ca.vals = append(ca.vals, r)
		ca.types = append(ca.types, a.Type())
		if len(r.T) == 1 {
			ca.terms = append(ca.terms, r.T[0])
		} else if r.L != nil {
			p := fr.materialise(r.L, st)
			if !((r.L.kind == rkHeap || r.L.kind == rkElems) && len(r.L.path) == 0) {
				ca.outs = append(ca.outs, copyBack{r.L, p})
			}
			ca.terms = append(ca.terms, p)
		} else {
			ca.terms = append(ca.terms, c.freshOfType("arg", a.Type()))
		}
	}
	// callee
	var callee *ssa.Function
	var clo *Closure
	if !com.IsInvoke() {
		callee = com.StaticCallee()
		if mc, ok := com.Value.(*ssa.MakeClosure); ok {
			clo = fr.val(mc, st).Clo
		} else if callee == nil {
			fv := fr.val(com.Value, st)
			if fv.Clo != nil {
				clo = fv.Clo
				callee = clo.fn
			} else if len(fv.T) == 1 {
				fr.safetyOb("nil-func", "", not(eq(fv.T[0], Term{"nil_fn", SFn})), pos, "call of nil function value")
			}
		}
	} else if _, isTP := com.Value.Type().(*types.TypeParam); isTP {
		// a method call on a value of type-parameter type: the instances used in this repository are
		// concrete (non-interface) types, for which the call cannot hit a nil interface
		c.assumeNote("method calls on values of type-parameter type are assumed to have non-interface instances")
	} else if !fr.assumedNonNilOrigin(com.Value) || fr.nullableField(com.Value) {
		fr.safetyOb("nil-invoke", com.Method.Name(), not(eq(ifTag(ca.terms[0]), Term{"0", SInt})), pos, "method call on nil interface value")
	} else {
		c.assumeNote("interface values held in parameters and in fields of the receiver are assumed non-nil when methods are called on them (constructor invariant)")
	}
	si, hasSite := fr.sites[in]
	key := si.key
	if key == "" && callee != nil {
		key = fnKey(callee)
	}
	con := c.v.findContract(key, c.fromPkg())
	// parameter names for contract evaluation
	ca.names = paramNames(callee, sig, com.IsInvoke())
	// event
	var ev *Event
	if hasSite {
		ev = &Event{did: fr.reach, block: fr.curBlock, key: key, ord: si.ord}
		for i, t := range ca.terms {
			ev.args = append(ev.args, TV{T: t, Ty: ca.types[i]})
		}
		fr.events[fmt.Sprintf("%s#%d", key, si.ord)] = ev
	}
	// sink obligations of the function under verification; a call site inside a helper that has no contract of its own and
	// is executed in place (extract-method refactoring) is also a site of the nearest enclosing function under contract,
	// under the helper's own ordinal
	owner := fr
	for owner != nil && owner.con == nil && owner.parent != nil {
		owner = owner.parent
	}
	if owner != nil && owner != fr && owner.con != nil && hasSite {
		for i, cl := range owner.con.Sinks {
			if !c.v.keyMatches(key, cl.Callee) || (cl.Ord != 0 && cl.Ord != si.ord) {
				continue
			}
			// only when the function under contract has no such site of its own (the call was moved into the helper);
			// otherwise the clause speaks about the function's own site and the helper's is unrelated
			ownerHas := false
			for _, osi := range owner.sites {
				if c.v.keyMatches(osi.key, cl.Callee) && (cl.Ord == 0 || cl.Ord == osi.ord) {
					ownerHas = true
					break
				}
			}
			if ownerHas {
				continue
			}
			cl.matched = true
			ec := owner.evalCtx(st, owner.entry, pos)
			ec.thisCall = ev
			t, err := ec.evalClause(cl.Expr)
			if err != nil {
				c.stale = append(c.stale, fmt.Sprintf("%s:%d: %v", cl.File, cl.Line, err))
				continue
			}
			lab := clauseLabel(cl, i)
			c.pendingParts, c.pendingGuard = ec.clauseParts(cl.Expr), fr.reach
			fr.oblige("sink", fmt.Sprintf("%s/%s@%s", shortKey(key), lab, sanitize(fr.fn.Name())), implies(fr.reach, t), pos, "before calling "+shortKey(key)+" in helper "+fr.fn.Name()+": "+oneLine(cl.Text))
		}
	}
	if fr.con != nil && hasSite {
		for i, cl := range fr.con.Sinks {
			if !c.v.keyMatches(key, cl.Callee) || (cl.Ord != 0 && cl.Ord != si.ord) {
				continue
			}
			cl.matched = true
			ec := fr.evalCtx(st, fr.entry, pos)
			ec.thisCall = ev
			ec.rangeIx = fr.currentRangeIx()
			t, err := ec.evalClause(cl.Expr)
			if err != nil {
				c.stale = append(c.stale, fmt.Sprintf("%s:%d: %v", cl.File, cl.Line, err))
				continue
			}
			lab := clauseLabel(cl, i)
			c.pendingParts, c.pendingGuard = ec.clauseParts(cl.Expr), fr.reach
			fr.oblige("sink", fmt.Sprintf("%s/%s", shortKey(key), lab), implies(fr.reach, t), pos, "before calling "+shortKey(key)+": "+oneLine(cl.Text))
		}
		for _, cl := range fr.con.Covers {
			if cl.Callee != "" && c.v.keyMatches(key, cl.Callee) && (cl.Ord == 0 || cl.Ord == si.ord) {
				cl.matched = true
				o := &Obligation{Name: fmt.Sprintf("%s/cover/%s#%d", c.funcName, shortKey(key), si.ord), Kind: "cover", Func: c.funcName, Props: c.props, Goal: fr.reach, Cover: true, Detail: "call site reachable"}
				c.sc.oblige(o)
			}
		}
	}
	var res *Val
	var err error
	if t, ok := c.ieeeBuiltin(key, ca.terms); ok {
		res = &Val{T: []Term{c.sc.define(shortKey(key), t)}}
		if ev != nil {
			ev.rets = append(ev.rets, TV{T: res.T[0], Ty: sig.Results().At(0).Type()})
		}
		return res, nil
	}
	switch {
	case con != nil && con.NoReturn:
		fr.setReach(tFalse)
		res = fr.freshTuple(sig.Results(), "noreturn")
	case con != nil && con.Inline && callee != nil && len(callee.Blocks) > 0 && c.inlineDepth < 6:
		res, err = fr.inlineCall(callee, clo, ca, st, fr.reach)
	case con != nil && con.HO != "":
		res, err = fr.hoCall(in, con, key, callee, sig, ca, st, pos)
	case con != nil:
		res, err = fr.contractCall(con, key, sig, ca, st, pos)
	case clo != nil && callee != nil && len(callee.Blocks) > 0 && c.inlineDepth < 6 && callee.Parent() != nil && com.StaticCallee() != nil:
		// immediately invoked function literal
		res, err = fr.inlineCall(callee, clo, ca, st, fr.reach)
	case con == nil && !isGo && fr.autoInlinable(callee, com):
		// a helper of the package under verification that has no contract of its own (typically the
		// product of an extract-method refactoring): its body is part of the caller's text. Executed
		// in place; when the body cannot be executed the call falls back to "no contract" below.
		nLines, nObls, nStale := len(c.sc.lines), len(c.sc.obls), len(c.stale)
		saved := st.clone()
		savedReach, savedGuard, savedPriv := fr.reach, c.guard, append([]privRef{}, c.privateRefs...)
		savedChildren := len(fr.children)
		res, err = fr.inlineCall(callee, clo, ca, st, fr.reach)
		if err != nil {
			c.sc.lines, c.sc.obls, c.stale = c.sc.lines[:nLines], c.sc.obls[:nObls], c.stale[:nStale]
			*st = *saved
			fr.reach, c.guard, c.privateRefs = savedReach, savedGuard, savedPriv
			fr.children = fr.children[:savedChildren]
			err = nil
			c.uncontracted[key] = true
			c.havocAll(st)
			res = fr.freshTuple(sig.Results(), "ret_"+shortKey(key))
			for _, o := range ca.outs {
				fr.copyOut(o.l, o.p, st)
			}
		} else {
			c.autoInlined[key] = true
		}
	default:
		// no contract: results are arbitrary, everything reachable may change
		if key != "" {
			c.uncontracted[key] = true
		} else {
			c.uncontracted["<dynamic call in "+fr.fn.Name()+">"] = true
		}
		c.havocAll(st)
		res = fr.freshTuple(sig.Results(), "ret_"+shortKey(key))
		for _, o := range ca.outs {
			fr.copyOut(o.l, o.p, st)
		}
	}
	if err != nil {
		return nil, err
	}
	if ev != nil {
		tup := sig.Results()
		for i := 0; i < tup.Len() && i < len(res.T); i++ {
			ev.rets = append(ev.rets, TV{T: res.T[i], Ty: tup.At(i).Type()})
		}
	}
	if isGo || sig.Results().Len() == 0 {
		return &Val{}, nil
	}
	return res, nil
}

// ieeeBuiltin: functions of package math that SMT-LIB's floating point theory defines exactly
// (only under `note floats ieee`).
func (c *FuncCtx) ieeeBuiltin(key string, args []Term) (Term, bool) {
	if !c.sc.ieeeFloats || len(args) != 1 || args[0].Sort != SFloat {
		return Term{}, false
	}
	a := args[0]
	switch key {
	case "math.Trunc":
		return mk(SFloat, "fp.roundToIntegral RTZ", a), true
	case "math.Floor":
		return mk(SFloat, "fp.roundToIntegral RTN", a), true
	case "math.Ceil":
		return mk(SFloat, "fp.roundToIntegral RTP", a), true
	case "math.Abs":
		return mk(SFloat, "fp.abs", a), true
	case "math.IsNaN":
		return mk(SBool, "fp.isNaN", a), true
	}
	return Term{}, false
}

// autoInlinable: a statically known, non-recursive function with a body, declared in the package of
// the function under verification, small enough, called directly (not go/defer).
func (fr *Frame) autoInlinable(callee *ssa.Function, com *ssa.CallCommon) bool {
	c := fr.c
	if os.Getenv("GOVC_NO_AUTOINLINE") != "" || callee == nil || com.StaticCallee() == nil || len(callee.Blocks) == 0 || c.inlineDepth >= 2 {
		return false
	}
	if callee.Parent() != nil || callee.Signature.Variadic() {
		return false
	}
	if c.top == nil || fnPkgPath(callee) != fnPkgPath(c.top) {
		return false
	}
	for f := fr; f != nil; f = f.parent {
		if f.fn == callee {
			return false
		}
	}
	n := 0
	for _, b := range callee.Blocks {
		n += len(b.Instrs)
		for _, in := range b.Instrs {
			switch in.(type) {
			case *ssa.Go, *ssa.Defer, *ssa.Select, *ssa.Send, *ssa.Panic:
				return false
			}
		}
	}
	return n <= 400
}

func (fr *Frame) setReach(t Term) {
	fr.reach = t
	fr.c.guard = t
}

func shortKey(key string) string {
	// drop directory part of package paths: (*a/b/c.T).M -> (*c.T).M
	var b strings.Builder
	i := 0
	for i < len(key) {
		j := i
		for j < len(key) && (isIdentChar(key[j]) || key[j] == '/' || key[j] == '.' || key[j] == '-') {
			j++
		}
		if j > i {
			seg := key[i:j]
			if s := strings.LastIndex(seg, "/"); s >= 0 {
				seg = seg[s+1:]
			}
			b.WriteString(seg)
			i = j
			continue
		}
		b.WriteByte(key[i])
		i++
	}
	return b.String()
}

func isIdentChar(c byte) bool {
	return c == '_' || c == '$' || (c >= 'a' && c <= 'z') || (c >= 'A' && c <= 'Z') || (c >= '0' && c <= '9')
}

// keyMatches: does the written callee reference `want` denote the function with full key `key`?
func (v *Verifier) keyMatches(key, want string) bool {
	w := normKey(want)
	for _, k := range candidateKeys(key, keyPkgPath(key)) {
		if normKey(k) == w {
			return true
		}
	}
	// allow writing just the method/function name
	if !strings.ContainsAny(w, "./()") {
		if i := strings.LastIndex(key, "."); i >= 0 && key[i+1:] == w {
			return true
		}
	}
	return false
}

func paramNames(fn *ssa.Function, sig *types.Signature, invoke bool) []string {
	var names []string
	if fn != nil && len(fn.Params) > 0 {
		for _, p := range fn.Params {
			names = append(names, p.Name())
		}
		return names
	}
	if invoke {
		names = append(names, "recv")
	} else if sig.Recv() != nil {
		n := sig.Recv().Name()
		if n == "" || n == "_" {
			n = "recv"
		}
		names = append(names, n)
	}
	for i := 0; i < sig.Params().Len(); i++ {
		n := sig.Params().At(i).Name()
		if n == "" || n == "_" {
			n = fmt.Sprintf("p%d", i)
		}
		names = append(names, n)
	}
	return names
}

// contractCall applies a callee's contract at a call site.
func (fr *Frame) contractCall(con *Contract, key string, sig *types.Signature, ca *callArgs, st *State, pos token.Pos) (*Val, error) {
	c := fr.c
	con.Used = true
	if con.Trusted || con.External {
		c.trustedUsed[key] = true
	} else {
		c.calleeContracts[key] = true
	}
	pkgPath := con.Pkg
	if pkgPath == "" {
		pkgPath = keyPkgPath(key)
	}
	bind := map[string]TV{}
	for i, n := range ca.names {
		if i < len(ca.terms) {
			bind[n] = TV{T: ca.terms[i], Ty: ca.types[i]}
		}
	}
	mkEC := func(s, old *State) *evalCtx {
		return &evalCtx{c: c, st: s, old: old, bind: bind, pkgPath: pkgPath, fr: nil, callerFr: fr, hoEvents: fr.pendingHO}
	}
	for i, cl := range con.Requires {
		t, err := mkEC(st, st).evalBool(cl.Expr)
		if err != nil {
			c.stale = append(c.stale, fmt.Sprintf("%s:%d: %v", cl.File, cl.Line, err))
			continue
		}
		fr.oblige("requires", fmt.Sprintf("%s/%s", shortKey(key), clauseLabel(cl, i)), implies(fr.reach, t), pos, "precondition of "+shortKey(key)+": "+oneLine(cl.Text))
	}
	pre := st.clone()
	tup := sig.Results()
	res := &Val{}
	if con.Pure {
		for i := 0; i < tup.Len(); i++ {
			res.T = append(res.T, fr.pureApp(con, key, i, ca, sig, st))
		}
	} else {
		if names := modifiesPointees(con); len(names) > 0 || modifiesArgs(con) {
			// only the objects directly pointed to by (the named) pointer arguments may change
			allowed := func(i int) bool {
				if len(names) == 0 {
					return true
				}
				for _, n := range names {
					if i < len(ca.names) && ca.names[i] == n {
						return true
					}
				}
				return false
			}
			if ca.ifaceOpaque && len(names) == 0 {
				// an interface argument may carry a pointer we cannot see: fall back to havoc
				c.havocAll(st)
			}
			for i, sv := range ca.ifaceSlice {
				if allowed(i) {
					fr.havocObject(sv, st)
				}
			}
			for i, p := range ca.ifacePtr {
				if !allowed(i) {
					continue
				}
				l := c.ptrLVal(p, ca.ifaceElem[i])
				fr.write(l, st, c.freshOfType("out", ca.ifaceElem[i]))
			}
			// `modifies *recv.field`: the object a path expression over the parameters denotes
			for _, n := range names {
				if isPlainIdent(n) {
					continue
				}
				ex, err := parseCExpr(n)
				if err != nil {
					c.stale = append(c.stale, fmt.Sprintf("%s:%d: modifies *%s: %v", con.File, con.Line, n, err))
					continue
				}
				tv, err := mkEC(pre, pre).eval(ex)
				if err != nil {
					c.stale = append(c.stale, fmt.Sprintf("%s:%d: modifies *%s: %v", con.File, con.Line, n, err))
					continue
				}
				fr.havocObject(tv, st)
			}
			for i, t := range ca.terms {
				if sl, isSlice := under(ca.types[i]).(*types.Slice); isSlice && allowed(i) {
					// the elements of a slice argument may change (its backing array gets arbitrary contents)
					es := c.sortOf(sl.Elem())
					k := c.regElem(es)
					st.set(k, c.sc.define("elems", sto(c.get(st, k), slPtr(t), c.sc.fresh("out_elems", arraySort(c.sc.idxSort(), es)))))
					c.heapWritten(st)
					continue
				}
				if _, isMap := under(ca.types[i]).(*types.Map); isMap && allowed(i) {
					// the entries of a map argument may change (a map is a reference to its entries)
					fr.havocObject(TV{T: t, Ty: ca.types[i]}, st)
					continue
				}
				pt, ok := under(ca.types[i]).(*types.Pointer)
				if !ok || !allowed(i) {
					continue
				}
				// the pointee gets an arbitrary new value; postconditions constrain it
				var back *copyBack
				for k := range ca.outs {
					if ca.outs[k].p.S == t.S {
						back = &ca.outs[k]
					}
				}
				l := c.ptrLVal(t, pt.Elem())
				nv := c.freshOfType("out", pt.Elem())
				fr.write(l, st, nv)
				if back != nil {
					fr.pendingOuts = append(fr.pendingOuts, *back)
				}
			}
		} else if con.HO != "" {
			c.assumeNote("higher-order summary (assumed): " + shortKey(key) + " affects caller-visible memory only by invoking its function arguments (" + con.HO + ")")
		} else if con.AssumeBenign {
			c.assumeNote("assumed effect (not checked against the body): " + shortKey(key) + " does not modify memory visible to its callers")
		} else if !(con.Benign || modifiesNothing(con)) {
			c.havocAll(st)
			for _, o := range ca.outs {
				fr.copyOut(o.l, o.p, st)
			}
		}
		for i := 0; i < tup.Len(); i++ {
			t := c.freshOfType("ret_"+shortKey(key), tup.At(i).Type())
			res.T = append(res.T, t)
		}
		for _, f := range con.Fresh {
			_ = f
			for i := 0; i < tup.Len(); i++ {
				if _, ok := under(tup.At(i).Type()).(*types.Pointer); ok {
					c.assumeG(implies(not(eq(res.T[i], Term{"nil_ref", SRef})), mk(SBool, ">", mk(SInt, "alloc_id", res.T[i]), Term{fmt.Sprintf("%d", 1000000+len(c.allocs)), SInt})))
					c.sc.declFun("alloc_id", []Sort{SRef}, SInt)
				}
			}
		}
	}
	// bind results
	for i := 0; i < tup.Len(); i++ {
		tv := TV{T: res.T[i], Ty: tup.At(i).Type()}
		if n := tup.At(i).Name(); n != "" && n != "_" {
			bind[n] = tv
		}
		if tup.Len() == 1 {
			bind["result"] = tv
		}
	}
	if tup.Len() > 1 {
		var tvs []TV
		for i := 0; i < tup.Len(); i++ {
			tvs = append(tvs, TV{T: res.T[i], Ty: tup.At(i).Type()})
		}
		bind["result"] = TV{Tuple: tvs}
	}
	for _, cl := range con.Ensures {
		if con.Opaque {
			break // used as an uninterpreted symbol here
		}
		if mentionsEvents(cl.Expr, fr.pendingHO) {
			continue // talks about the callee's own call sites: not visible to callers
		}
		t, err := mkEC(st, pre).evalBool(cl.Expr)
		if err != nil {
			if strings.HasPrefix(err.Error(), "unknown identifier") {
				continue // talks about the callee's locals: not visible to callers
			}
			c.stale = append(c.stale, fmt.Sprintf("%s:%d: %v", cl.File, cl.Line, err))
			continue
		}
		if t.S == "false" {
			// a postcondition that is literally false at a call site would make everything after the
			// call vacuously true: refuse it (functions that never return are declared `noreturn`)
			c.stale = append(c.stale, fmt.Sprintf("%s:%d: postcondition of %s evaluates to false at a call site (use noreturn if intended)", cl.File, cl.Line, shortKey(key)))
			continue
		}
		c.assumeG(t)
	}
	// materialised addresses of locals / interior locations: read the callee's result back
	for _, o := range fr.pendingOuts {
		fr.copyOut(o.l, o.p, st)
	}
	fr.pendingOuts = nil
	return res, nil
}

// pureTerm builds the application of the uninterpreted function standing for a pure callee.
// Heap-reading pure functions additionally take the heap arrays directly reachable from their
// arguments (and a global epoch when the reachable memory itself contains references).
func (c *FuncCtx) pureTerm(key string, resIdx int, args []Term, argTys []types.Type, resT types.Type, heap bool, st *State) Term {
	name := "pf_" + sanitize(shortKey(key))
	if resIdx > 0 {
		name = fmt.Sprintf("%s_r%d", name, resIdx)
	}
	var sorts []Sort
	for _, a := range args {
		sorts = append(sorts, a.Sort)
	}
	as := append([]Term{}, args...)
	if heap {
		deep := false
		seen := map[string]bool{}
		addHeap := func(k string) {
			if seen[k] {
				return
			}
			seen[k] = true
			h := c.get(st, k)
			sorts = append(sorts, h.Sort)
			as = append(as, h)
		}
		for _, t := range argTys {
			if t == nil {
				continue
			}
			switch u := under(t).(type) {
			case *types.Slice:
				addHeap(c.regElem(c.sortOf(u.Elem())))
				if hasRefs(u.Elem()) {
					deep = true
				}
			case *types.Pointer:
				if arr, ok := under(u.Elem()).(*types.Array); ok {
					addHeap(c.regElem(c.sortOf(arr.Elem())))
				} else {
					addHeap(c.regHeap(c.sortOf(u.Elem())))
				}
				if hasRefs(u.Elem()) {
					deep = true
				}
			case *types.Map:
				dk, vk := c.regMap(c.sortOf(u.Key()), c.sortOf(u.Elem()))
				addHeap(dk)
				addHeap(vk)
				if hasRefs(u.Elem()) {
					deep = true
				}
			case *types.Interface, *types.Signature, *types.Chan:
				deep = true
			case *types.Struct:
				if hasRefs(t) {
					deep = true
				}
			}
		}
		if deep {
			c.registerKey("epoch", SInt, false)
			sorts = append(sorts, SInt)
			as = append(as, c.get(st, "epoch"))
		}
	}
	full := name
	if prev, ok := c.pureSig[name]; ok && prev != fmt.Sprint(sorts) {
		full = name + "_" + sanitize(fmt.Sprint(sorts))
	} else {
		c.pureSig[name] = fmt.Sprint(sorts)
	}
	rs := c.sortOf(resT)
	c.sc.declFun(full, sorts, rs)
	return mk(rs, full, as...)
}

// hasRefs: does a value of type t contain references into the heap?
func hasRefs(t types.Type) bool {
	switch u := under(t).(type) {
	case *types.Basic:
		return u.Kind() == types.UnsafePointer
	case *types.Array:
		return hasRefs(u.Elem())
	case *types.Struct:
		for i := 0; i < u.NumFields(); i++ {
			if hasRefs(u.Field(i).Type()) {
				return true
			}
		}
		return false
	}
	return true
}

// bumpEpoch marks a heap write (invalidates heap-reading pure applications over deep types).
func (c *FuncCtx) bumpEpoch(st *State) {
	if _, ok := c.keys["epoch"]; !ok {
		c.registerKey("epoch", SInt, false)
	}
	old := c.get(st, "epoch")
	n := c.sc.fresh("epoch", SInt)
	c.sc.assume(mk(SBool, ">", n, old))
	st.set("epoch", n)
}

// pureApp applies a pure callee in code: UF application, well-formedness of the result, and the
// callee's postconditions instantiated at this application.
func (fr *Frame) pureApp(con *Contract, key string, resIdx int, ca *callArgs, sig *types.Signature, st *State) Term {
	c := fr.c
	resT := sig.Results().At(resIdx).Type()
	t := c.sc.define("pure_"+sanitize(shortKey(key)), c.pureTerm(key, resIdx, ca.terms, ca.types, resT, con.PureHeap, st))
	if wf := c.wfTerm(t, resT); wf.S != "true" {
		c.assumeG(wf)
	}
	return t
}

// inlineCall executes the callee's body in place.
func (fr *Frame) inlineCall(fn *ssa.Function, clo *Closure, ca *callArgs, st *State, reach Term) (*Val, error) {
	c := fr.c
	con := c.v.findContract(fnKey(fn), c.fromPkg())
	child, err := c.newFrame(fn, con, fr)
	if err != nil {
		return nil, err
	}
	c.frameN++
	child.frameID = c.frameN
	for i, p := range fn.Params {
		if i < len(ca.vals) {
			child.env[p] = ca.vals[i]
			if len(ca.vals[i].T) != 1 {
				child.env[p] = &Val{T: []Term{ca.terms[i]}, Clo: ca.vals[i].Clo}
			}
			child.params[p.Name()] = TV{T: ca.terms[i], Ty: p.Type()}
		}
	}
	if clo != nil {
		for i, fv := range fn.FreeVars {
			if i < len(clo.binds) {
				child.env[fv] = clo.binds[i]
			}
		}
	}
	// the callee's own preconditions (a closure's assumptions about its captured variables) are
	// obligations of the code that invokes it
	if con != nil && !con.Inline {
		for i, cl := range con.Requires {
			ec := child.evalCtx(st, st, fn.Pos())
			ec.entryPar = true
			t, err := ec.evalBool(cl.Expr)
			if err != nil {
				c.stale = append(c.stale, fmt.Sprintf("%s:%d: %v", cl.File, cl.Line, err))
				continue
			}
			fr.oblige("requires", fmt.Sprintf("%s/%s", shortKey(fnKey(fn)), clauseLabel(cl, i)), implies(reach, t), fn.Pos(), "precondition of "+shortKey(fnKey(fn))+" (inlined): "+oneLine(cl.Text))
		}
	}
	c.inlineDepth++
	saveGuard := c.guard
	c.guard = reach
	err = child.run(st, reach)
	c.inlineDepth--
	c.guard = saveGuard
	if err != nil {
		return nil, err
	}
	if con != nil {
		child.checkEnsures()
	}
	// join the returns
	tup := fn.Signature.Results()
	res := &Val{}
	if len(child.rets) == 0 {
		fr.setReach(tFalse)
		return fr.freshTuple(tup, "noret"), nil
	}
	var ies []inEdge
	var conds []Term
	for _, r := range child.rets {
		ies = append(ies, inEdge{r.reach, r.st})
		conds = append(conds, r.reach)
	}
	merged := c.mergeStates(ies, "ret_"+sanitize(fn.Name()))
	*st = *merged
	for i := 0; i < tup.Len(); i++ {
		t := child.rets[len(child.rets)-1].vals[i]
		for j := len(child.rets) - 2; j >= 0; j-- {
			t = ite(child.rets[j].reach, child.rets[j].vals[i], t)
		}
		res.T = append(res.T, c.sc.define("inl_"+sanitize(fn.Name()), t))
	}
	fr.setReach(c.sc.define("reach_after_"+sanitize(fn.Name()), or(conds...)))
	fr.children = append(fr.children, child)
	// objects allocated by the callee are no longer tracked as private once it has returned
	var keep []privRef
	for _, p := range c.privateRefs {
		if p.fr != child {
			keep = append(keep, p)
		}
	}
	c.privateRefs = keep
	return res, nil
}

// hoCall: callee with a higher-order summary. "once": each function-typed argument that is a known
// closure is invoked at most once (in parameter order) with arbitrary arguments; the callee itself
// has no other effect on the Go heap. The callee's ensures may refer to did(call <param> #1) and
// ret(call <param> #1).
func (fr *Frame) hoCall(in ssa.Instruction, con *Contract, key string, callee *ssa.Function, sig *types.Signature, ca *callArgs, st *State, pos token.Pos) (*Val, error) {
	c := fr.c
	con.Used = true
	c.trustedUsed[key] = true
	ho := map[string]*Event{}
	entryReach := fr.reach
	runClosure := func(name string, clo *Closure, guard Term) error {
		csig := clo.fn.Signature
		cargs := &callArgs{}
		for i := 0; i < csig.Params().Len(); i++ {
			t := c.freshOfType("hoarg", csig.Params().At(i).Type())
			cargs.vals = append(cargs.vals, &Val{T: []Term{t}})
			cargs.terms = append(cargs.terms, t)
			cargs.types = append(cargs.types, csig.Params().At(i).Type())
		}
		before := st.clone()
		g := c.sc.define("ho_guard", and(entryReach, guard))
		res, err := fr.inlineCall(clo.fn, clo, cargs, st, g)
		if err != nil {
			return err
		}
		after := fr.reach // reach of paths that returned from the closure
		// join with the path on which the closure was not invoked
		notInv := c.sc.define("ho_skip", and(entryReach, not(guard)))
		merged := c.mergeStates([]inEdge{{after, st.clone()}, {notInv, before}}, "ho")
		*st = *merged
		fr.setReach(c.sc.define("reach_ho", or(after, notInv)))
		ev := &Event{did: after, key: name, ord: 1}
		for i := 0; i < csig.Results().Len() && i < len(res.T); i++ {
			ev.rets = append(ev.rets, TV{T: res.T[i], Ty: csig.Results().At(i).Type()})
		}
		ho[name] = ev
		return nil
	}
	for i, v := range ca.vals {
		if v.Clo == nil || len(v.Clo.fn.Blocks) == 0 {
			continue
		}
		name := fmt.Sprintf("p%d", i)
		if i < len(ca.names) {
			name = ca.names[i]
		}
		inv := c.sc.fresh("invoked_"+name, SBool)
		if err := runClosure(name, v.Clo, inv); err != nil {
			return nil, err
		}
	}
	if con.HO == "tx" {
		// closures wrapped by option constructors and passed through the variadic tail
		wrapped := fr.wrappedClosures(in, st)
		// result is decided after the main closure ran: commit hooks run iff the result is nil
		fr.pendingHO = ho
		res, err := fr.contractCall(con, key, sig, ca, st, pos)
		if err != nil {
			return nil, err
		}
		okT := tTrue
		if len(res.T) > 0 {
			okT = eq(ifTag(res.T[len(res.T)-1]), Term{"0", SInt})
		}
		entryReach = fr.reach
		names := make([]string, 0, len(wrapped))
		for n := range wrapped {
			names = append(names, n)
		}
		sort.Strings(names)
		for _, n := range names {
			for _, clo := range wrapped[n] {
				g := okT
				if strings.Contains(strings.ToLower(n), "rollback") {
					g = not(okT)
				}
				if err := runClosure(n, clo, g); err != nil {
					return nil, err
				}
				entryReach = fr.reach
			}
		}
		fr.pendingHO = nil
		return res, nil
	}
	fr.pendingHO = ho
	res, err := fr.contractCall(con, key, sig, ca, st, pos)
	fr.pendingHO = nil
	return res, err
}

// wrappedClosures finds closures passed through option constructors in the variadic tail of a call:
//   db.Write(ctx, fn, stoabs.AfterCommit(func(){...}), stoabs.OnRollback(func(){...}))
// result: constructor name -> closures, in argument order.
func (fr *Frame) wrappedClosures(in ssa.Instruction, st *State) map[string][]*Closure {
	out := map[string][]*Closure{}
	ci, ok := in.(ssa.CallInstruction)
	if !ok {
		return out
	}
	args := ci.Common().Args
	if len(args) == 0 {
		return out
	}
	sl, ok := args[len(args)-1].(*ssa.Slice)
	if !ok {
		return out
	}
	alloc, ok := sl.X.(*ssa.Alloc)
	if !ok || alloc.Referrers() == nil {
		return out
	}
	type rec struct {
		idx  int64
		name string
		clo  *Closure
	}
	var recs []rec
	for _, r := range *alloc.Referrers() {
		ia, ok := r.(*ssa.IndexAddr)
		if !ok || ia.Referrers() == nil {
			continue
		}
		k, ok := ia.Index.(*ssa.Const)
		if !ok {
			continue
		}
		for _, u := range *ia.Referrers() {
			s, ok := u.(*ssa.Store)
			if !ok {
				continue
			}
			val := s.Val
			if mi, ok := val.(*ssa.MakeInterface); ok {
				val = mi.X
			}
			if ct, ok := val.(*ssa.ChangeType); ok {
				val = ct.X
			}
			call, ok := val.(*ssa.Call)
			if !ok || len(call.Call.Args) == 0 {
				continue
			}
			cf := call.Call.StaticCallee()
			if cf == nil {
				continue
			}
			for _, a := range call.Call.Args {
				if v := fr.val(a, st); v.Clo != nil {
					recs = append(recs, rec{k.Int64(), cf.Name(), v.Clo})
				}
			}
		}
	}
	sort.Slice(recs, func(i, j int) bool { return recs[i].idx < recs[j].idx })
	for _, r := range recs {
		out[r.name] = append(out[r.name], r.clo)
	}
	return out
}

// ---------------------------------------------------------------------------------------------
// defers

func (fr *Frame) execDefer(x *ssa.Defer, st *State) error {
	c := fr.c
	key := fr.deferKeys[x]
	_ = c
	ds := &deferSite{instr: x, key: key}
	com := x.Common()
	if !com.IsInvoke() {
		ds.fnVal = fr.val(com.Value, st)
	}
	for _, a := range com.Args {
		v := fr.val(a, st)
		if len(v.T) != 1 && v.L != nil {
			v = &Val{T: []Term{fr.materialise(v.L, st)}}
		}
		ds.args = append(ds.args, v)
	}
	fr.defers = append(fr.defers, ds)
	// registered flags of all defer sites must exist on every path: initialise lazily at entry
	st.set(key, tTrue)
	return nil
}

func (fr *Frame) deferRegistered(ds *deferSite, st *State) Term {
	if t, ok := st.m[ds.key]; ok {
		return t
	}
	return tFalse
}

func (fr *Frame) runDefers(st *State) error {
	c := fr.c
	for i := len(fr.defers) - 1; i >= 0; i-- {
		ds := fr.defers[i]
		reg := fr.deferRegistered(ds, st)
		if reg.S == "false" {
			continue
		}
		// execute the deferred call guarded by its registration
		outer := fr.reach
		before := st.clone()
		g := c.sc.define("defer_run", and(outer, reg))
		fr.setReach(g)
		com := ds.instr.Common()
		// temporarily bind the argument values captured at the defer site
		saved := map[ssa.Value]*Val{}
		for j, a := range com.Args {
			if _, isConst := a.(*ssa.Const); isConst {
				continue
			}
			saved[a] = fr.env[a]
			fr.env[a] = ds.args[j]
		}
		_, err := fr.doCall(ds.instr, com, st, false)
		for a, v := range saved {
			if v == nil {
				delete(fr.env, a)
			} else {
				fr.env[a] = v
			}
		}
		if err != nil {
			return err
		}
		after := fr.reach
		skip := c.sc.define("defer_skip", and(outer, not(reg)))
		merged := c.mergeStates([]inEdge{{after, st.clone()}, {skip, before}}, "defer")
		*st = *merged
		fr.setReach(c.sc.define("reach_defer", or(after, skip)))
		st.set(ds.key, tFalse)
	}
	return nil
}

// ---------------------------------------------------------------------------------------------
// builtins

func (fr *Frame) builtin(in ssa.Instruction, b *ssa.Builtin, com *ssa.CallCommon, st *State) (*Val, error) {
	c := fr.c
	one := func(t Term) (*Val, error) { return &Val{T: []Term{t}}, nil }
	switch b.Name() {
	case "len", "cap":
		a := com.Args[0]
		v := fr.term(a, st)
		switch t := under(a.Type()).(type) {
		case *types.Slice:
			if b.Name() == "len" {
				return one(c.sc.define("len", c.slLen(v)))
			}
			return one(c.sc.define("cap", c.slCap(v)))
		case *types.Basic:
			return one(c.sc.define("len", c.strlen(v)))
		case *types.Array:
			return one(c.sc.idxLit(t.Len()))
		case *types.Pointer:
			if arr, ok := under(t.Elem()).(*types.Array); ok {
				return one(c.sc.idxLit(arr.Len()))
			}
		case *types.Map:
			mt := t
			c.sc.declFun("map_len", []Sort{arraySort(c.sortOf(mt.Key()), SBool)}, c.sc.idxSort())
			ks, vs := c.sortOf(mt.Key()), c.sortOf(mt.Elem())
			dk, _ := c.regMap(ks, vs)
			n := c.sc.define("maplen", ite(eq(v, Term{"nil_ref", SRef}), c.sc.idxLit(0), mk(c.sc.idxSort(), "map_len", sel(c.get(st, dk), v, arraySort(ks, SBool)))))
			c.assumeG(and(c.le(c.sc.idxLit(0), n), c.le(n, c.maxLen())))
			return one(n)
		}
		r := c.freshOfType("len", types.Typ[types.Int])
		c.assumeG(c.le(c.sc.idxLit(0), r))
		return one(r)
	case "append":
		// addressable as a sink: `call append #n requires E` with arg(0) the slice appended to and
		// arg(1) the slice of appended elements (the variadic tail)
		if fr.con != nil && len(com.Args) == 2 {
			if _, isSl := under(com.Args[1].Type()).(*types.Slice); isSl {
				fr.pseudoSinkKind("append", in, []TV{{T: fr.term(com.Args[0], st), Ty: com.Args[0].Type()}, {T: fr.term(com.Args[1], st), Ty: com.Args[1].Type()}}, st)
			}
		}
		return fr.builtinAppend(in, com, st)
	case "copy":
		return fr.builtinCopy(in, com, st)
	case "delete":
		if fr.con != nil && in != nil {
			// deletes are addressable as sinks: `call delete #n requires E` with arg(0) = map, arg(1) = key
			fr.pseudoSinkKind("delete", in, []TV{{T: fr.term(com.Args[0], st), Ty: com.Args[0].Type()}, {T: fr.term(com.Args[1], st), Ty: com.Args[1].Type()}}, st)
		}
		m := fr.term(com.Args[0], st)
		mt := under(com.Args[0].Type()).(*types.Map)
		ks, vs := c.sortOf(mt.Key()), c.sortOf(mt.Elem())
		dk, _ := c.regMap(ks, vs)
		k := fr.term(com.Args[1], st)
		dom := sel(c.get(st, dk), m, arraySort(ks, SBool))
		st.set(dk, c.sc.define("mapdom", sto(c.get(st, dk), m, sto(dom, k, tFalse))))
		return &Val{}, nil
	case "print", "println":
		return &Val{}, nil
	case "min", "max":
		t := fr.term(com.Args[0], st)
		ty := com.Args[0].Type()
		for _, a := range com.Args[1:] {
			u := fr.term(a, st)
			if !isInteger(ty) {
				return one(c.freshOfType(b.Name(), ty))
			}
			var less Term
			if c.sc.mathInts {
				less = mk(SBool, "<", t, u)
			} else if isUnsigned(ty) {
				less = mk(SBool, "bvult", t, u)
			} else {
				less = mk(SBool, "bvslt", t, u)
			}
			if b.Name() == "min" {
				t = ite(less, t, u)
			} else {
				t = ite(less, u, t)
			}
		}
		return one(c.sc.define(b.Name(), t))
	case "ssa:deferstack":
		return one(c.sc.fresh("deferstack", SRef))
	case "ssa:wrapnilchk":
		return one(fr.term(com.Args[0], st))
	case "recover":
		c.assumeNote("recover() is not modelled (returns an arbitrary value)")
		return one(c.freshOfType("recover", types.NewInterfaceType(nil, nil)))
	case "close":
		return &Val{}, nil
	case "clear":
		c.havocAll(st)
		return &Val{}, nil
	}
	c.unmodelled["builtin "+b.Name()] = true
	c.havocAll(st)
	if call, ok := in.(*ssa.Call); ok {
		return fr.freshTuple(call.Type(), b.Name()), nil
	}
	return &Val{}, nil
}

// staticSliceLen recognises the variadic-argument pattern `slice (new [n]T)[:]`.
func staticVarargs(v ssa.Value) (*ssa.Alloc, int64, bool) {
	sl, ok := v.(*ssa.Slice)
	if !ok || sl.Low != nil || sl.High != nil || sl.Max != nil {
		return nil, 0, false
	}
	a, ok := sl.X.(*ssa.Alloc)
	if !ok {
		return nil, 0, false
	}
	arr, ok := a.Type().(*types.Pointer).Elem().Underlying().(*types.Array)
	if !ok {
		return nil, 0, false
	}
	return a, arr.Len(), true
}

func (fr *Frame) builtinAppend(in ssa.Instruction, com *ssa.CallCommon, st *State) (*Val, error) {
	c := fr.c
	s := fr.term(com.Args[0], st)
	t := fr.term(com.Args[1], st)
	st0 := under(com.Args[0].Type()).(*types.Slice)
	et := st0.Elem()
	es := c.sortOf(et)
	k := c.regElem(es)
	inner := arraySort(c.sc.idxSort(), es)
	var tl Term
	isStr := isString(com.Args[1].Type())
	if isStr {
		tl = c.strlen(t)
	} else {
		tl = c.slLen(t)
	}
	newLen := c.sc.define("app_len", c.add(c.slLen(s), tl))
	inPlace := c.sc.define("app_inplace", c.le(newLen, c.slCap(s)))
	fresh := c.newRefIn("app_arr", k)
	freshCap := c.sc.fresh("app_cap", c.sc.idxSort())
	c.assumeG(and(c.le(newLen, freshCap), c.le(freshCap, c.maxLen())))
	rp := c.sc.define("app_ptr", ite(inPlace, slPtr(s), fresh))
	rcap := ite(inPlace, c.slCap(s), freshCap)
	E := c.get(st, k)
	src := sel(E, slPtr(s), inner)
	base := c.sc.define("app_base", c.add(c.slOff(s), c.slLen(s)))
	var dst Term
	_, n, static := staticVarargs(com.Args[1])
	if static && !isStr && n <= 8 {
		dst = src
		tsrc := sel(E, slPtr(t), inner)
		for j := int64(0); j < n; j++ {
			jj := c.sc.idxLit(j)
			dst = sto(dst, c.add(base, jj), sel(tsrc, c.add(c.slOff(t), jj), es))
		}
		dst = c.sc.define("app_arr", dst)
	} else {
		// general case: fresh inner array constrained by quantified facts
		d := c.sc.fresh("app_arr", inner)
		j := Term{"j", c.sc.idxSort()}
		inRange := and(c.le(base, j), c.lt(j, c.add(base, tl)))
		var srcElem Term
		if isStr {
			srcElem = c.strAt(t, c.sub(j, base))
		} else {
			srcElem = sel(sel(E, slPtr(t), inner), c.add(c.slOff(t), c.sub(j, base)), es)
		}
		body := ite(inRange, eq(sel(d, j, es), srcElem), eq(sel(d, j, es), sel(src, j, es)))
		c.assumeG(Term{fmt.Sprintf("(forall ((j %s)) %s)", c.sc.idxSort(), body.S), SBool})
		dst = d
	}
	st.set(k, c.sc.define("elems", sto(E, rp, dst)))
	r := c.sc.define("app", c.mkSlice(rp, c.slOff(s), newLen, rcap))
	c.assumeG(c.le(newLen, c.maxLen()))
	return &Val{T: []Term{r}}, nil
}

func (fr *Frame) builtinCopy(in ssa.Instruction, com *ssa.CallCommon, st *State) (*Val, error) {
	c := fr.c
	d := fr.term(com.Args[0], st)
	s := fr.term(com.Args[1], st)
	et := under(com.Args[0].Type()).(*types.Slice).Elem()
	es := c.sortOf(et)
	k := c.regElem(es)
	inner := arraySort(c.sc.idxSort(), es)
	isStr := isString(com.Args[1].Type())
	var sl Term
	if isStr {
		sl = c.strlen(s)
	} else {
		sl = c.slLen(s)
	}
	n := c.sc.define("copy_n", ite(c.lt(c.slLen(d), sl), c.slLen(d), sl))
	E := c.get(st, k)
	old := sel(E, slPtr(d), inner)
	na := c.sc.fresh("copy_arr", inner)
	j := Term{"j", c.sc.idxSort()}
	inRange := and(c.le(c.slOff(d), j), c.lt(j, c.add(c.slOff(d), n)))
	var srcElem Term
	if isStr {
		srcElem = c.strAt(s, c.sub(j, c.slOff(d)))
	} else {
		srcElem = sel(sel(E, slPtr(s), inner), c.add(c.slOff(s), c.sub(j, c.slOff(d))), es)
	}
	body := ite(inRange, eq(sel(na, j, es), srcElem), eq(sel(na, j, es), sel(old, j, es)))
	c.assumeG(Term{fmt.Sprintf("(forall ((j %s)) %s)", c.sc.idxSort(), body.S), SBool})
	st.set(k, c.sc.define("elems", sto(E, slPtr(d), na)))
	return &Val{T: []Term{n}}, nil
}

// mentionsEvents: does a contract expression refer to call events (other than higher-order parameters)?
func mentionsEvents(e CExpr, ho map[string]*Event) bool {
	switch x := e.(type) {
	case *CEvent:
		if x.Callee == "" {
			return true
		}
		if ho != nil {
			if _, ok := ho[x.Callee]; ok {
				return false
			}
		}
		return true
	case *CBin:
		return mentionsEvents(x.X, ho) || mentionsEvents(x.Y, ho)
	case *CUn:
		return mentionsEvents(x.X, ho)
	case *CSel:
		return mentionsEvents(x.X, ho)
	case *CIdx:
		return mentionsEvents(x.X, ho) || mentionsEvents(x.I, ho)
	case *CCall:
		if id, ok := x.Fun.(*CIdent); ok && id.Name == "didCallWith" {
			return true
		}
		if mentionsEvents(x.Fun, ho) {
			return true
		}
		for _, a := range x.Args {
			if mentionsEvents(a, ho) {
				return true
			}
		}
	case *CQuant:
		return mentionsEvents(x.Body, ho)
	case *CCond:
		return mentionsEvents(x.C, ho) || mentionsEvents(x.A, ho) || mentionsEvents(x.B, ho)
	case *CAssert:
		return mentionsEvents(x.X, ho)
	}
	return false
}

// assumedNonNilOrigin: the value is a parameter, or was loaded from a (possibly nested) field of
// the receiver / a parameter struct: constructor-established, not attacker-controlled.
func (fr *Frame) assumedNonNilOrigin(v ssa.Value) bool {
	for i := 0; i < 8; i++ {
		switch x := v.(type) {
		case *ssa.Parameter, *ssa.FreeVar:
			return true
		case *ssa.UnOp:
			if x.Op != token.MUL {
				return false
			}
			v = x.X
		case *ssa.FieldAddr:
			v = x.X
		case *ssa.Field:
			v = x.X
		case *ssa.Alloc:
			// the local copy of a parameter
			for _, p := range fr.fn.Params {
				if p.Name() == x.Comment {
					return true
				}
			}
			return false
		default:
			return false
		}
	}
	return false
}

// nullableField: the value is loaded from a struct field that the contract declares nullable.
func (fr *Frame) nullableField(v ssa.Value) bool {
	if fr.con == nil || len(fr.con.Nullable) == 0 {
		return false
	}
	ld, ok := v.(*ssa.UnOp)
	if !ok || ld.Op != token.MUL {
		return false
	}
	fa, ok := ld.X.(*ssa.FieldAddr)
	if !ok {
		return false
	}
	st, ok := under(fa.X.Type()).(*types.Pointer).Elem().Underlying().(*types.Struct)
	return ok && fr.con.Nullable[st.Field(fa.Field).Name()]
}

func isPlainIdent(s string) bool {
	for i := 0; i < len(s); i++ {
		if !isIdentChar(s[i]) {
			return false
		}
	}
	return s != ""
}

// havocObject gives the object a pointer / map / slice value denotes arbitrary new contents.
func (fr *Frame) havocObject(tv TV, st *State) {
	c := fr.c
	switch u := under(tv.Ty).(type) {
	case *types.Pointer:
		l := c.ptrLVal(tv.T, u.Elem())
		fr.write(l, st, c.freshOfType("out", u.Elem()))
	case *types.Map:
		ks, vs := c.sortOf(u.Key()), c.sortOf(u.Elem())
		dk, vk := c.regMap(ks, vs)
		st.set(dk, c.sc.define("mdom", sto(c.get(st, dk), tv.T, c.sc.fresh("out_dom", arraySort(ks, SBool)))))
		st.set(vk, c.sc.define("mval", sto(c.get(st, vk), tv.T, c.sc.fresh("out_val", arraySort(ks, vs)))))
		c.heapWritten(st)
	case *types.Slice:
		es := c.sortOf(u.Elem())
		k := c.regElem(es)
		st.set(k, c.sc.define("elems", sto(c.get(st, k), slPtr(tv.T), c.sc.fresh("out_elems", arraySort(c.sc.idxSort(), es)))))
		c.heapWritten(st)
	}
}
