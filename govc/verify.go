package main

// Loading of the repository packages (go/packages + go/ssa) and the per-function verification driver.

import (
	"runtime/debug"
	"fmt"
	"go/token"
	"go/types"
	"os"
	"path/filepath"
	"sort"
	"strings"

	"golang.org/x/tools/go/packages"
	"golang.org/x/tools/go/ssa"
	"golang.org/x/tools/go/ssa/ssautil"
)

const repoModule = "github.com/nuts-foundation/nuts-node"

type Verifier struct {
	repo           string
	prog           *ssa.Program
	fset           *token.FileSet
	pkgs           []*packages.Package
	allTypes       map[string]*types.Package
	byName         map[string][]*types.Package
	cs             *ContractSet
	conCache       map[string]*Contract
	globalAssigned map[*ssa.Global]bool
	lenientLoops   bool
	fnByKey        map[string]*ssa.Function
	definedMemo    map[string]string
}

func loadVerifier(repo, extDir string, pkgPaths []string) (*Verifier, error) {
	cs, err := loadContracts(repo, extDir)
	if err != nil {
		return nil, err
	}
	v := &Verifier{repo: repo, cs: cs, conCache: map[string]*Contract{}, allTypes: map[string]*types.Package{}, byName: map[string][]*types.Package{},
		globalAssigned: map[*ssa.Global]bool{}, fnByKey: map[string]*ssa.Function{}, definedMemo: map[string]string{}}
	cfg := &packages.Config{
		Mode:       packages.LoadSyntax,
		Dir:        repo,
		BuildFlags: []string{"-tags=verif"},
		Env:        append(os.Environ(), "GOFLAGS=-mod=mod", "GOPROXY=off", "GOSUMDB=off", "GOTOOLCHAIN=local"),
		Tests:      false,
	}
	pkgs, err := packages.Load(cfg, pkgPaths...)
	if err != nil {
		return nil, err
	}
	var errs []string
	for _, p := range pkgs {
		for _, e := range p.Errors {
			errs = append(errs, e.Error())
		}
	}
	if len(errs) > 0 {
		return nil, fmt.Errorf("package load errors:\n%s", strings.Join(errs, "\n"))
	}
	v.pkgs = pkgs
	v.fset = pkgs[0].Fset
	prog := ssa.NewProgram(v.fset, ssa.NaiveForm|ssa.GlobalDebug|ssa.InstantiateGenerics)
	v.prog = prog
	created := map[*types.Package]bool{}
	isInitial := map[*types.Package]*packages.Package{}
	for _, p := range pkgs {
		isInitial[p.Types] = p
	}
	var visit func(tp *types.Package)
	visit = func(tp *types.Package) {
		if created[tp] {
			return
		}
		created[tp] = true
		v.allTypes[tp.Path()] = tp
		v.byName[tp.Name()] = append(v.byName[tp.Name()], tp)
		for _, imp := range tp.Imports() {
			visit(imp)
		}
		if ip := isInitial[tp]; ip != nil {
			prog.CreatePackage(tp, ip.Syntax, ip.TypesInfo, true)
		} else {
			prog.CreatePackage(tp, nil, nil, true)
		}
	}
	for _, p := range pkgs {
		visit(p.Types)
	}
	for _, p := range pkgs {
		prog.Package(p.Types).Build()
	}
	// index functions of the initial packages, find assigned globals
	for fn := range ssautil.AllFunctions(prog) {
		if len(fn.Blocks) == 0 {
			continue
		}
		// a generic function and its instantiations share one key: the generic body is the one under
		// contract (deterministically; among instantiations only, the first by name)
		if prev, ok := v.fnByKey[fnKey(fn)]; !ok || (prev.Origin() != nil && (fn.Origin() == nil || fn.String() < prev.String())) {
			v.fnByKey[fnKey(fn)] = fn
		}
		isInit := fn.Name() == "init" && fn.Parent() == nil
		for _, b := range fn.Blocks {
			for _, in := range b.Instrs {
				if s, ok := in.(*ssa.Store); ok {
					root := s.Addr
					for {
						switch x := root.(type) {
						case *ssa.FieldAddr:
							root = x.X
							continue
						case *ssa.IndexAddr:
							root = x.X
							continue
						}
						break
					}
					if g, ok := root.(*ssa.Global); ok && !(isInit && strings.HasPrefix(fn.Name(), "init")) {
						v.globalAssigned[g] = true
					}
				}
			}
		}
	}
	return v, nil
}

func (v *Verifier) typesPkg(path string) *types.Package {
	if p, ok := v.allTypes[path]; ok {
		return p
	}
	// unique suffix / name match
	var found *types.Package
	for pp, p := range v.allTypes {
		if strings.HasSuffix(pp, "/"+path) || p.Name() == path {
			if found != nil && found != p {
				// prefer repository packages, else ambiguous
				if strings.HasPrefix(p.Path(), repoModule) && !strings.HasPrefix(found.Path(), repoModule) {
					found = p
				}
				continue
			}
			found = p
		}
	}
	return found
}

func (v *Verifier) importedPkg(pkgPath, name string) *types.Package {
	if p := v.allTypes[pkgPath]; p != nil {
		for _, imp := range p.Imports() {
			if imp.Name() == name {
				return imp
			}
		}
	}
	if strings.Contains(name, "/") {
		return v.typesPkg(name)
	}
	cands := v.byName[name]
	if len(cands) == 1 {
		return cands[0]
	}
	for _, c := range cands {
		if strings.HasPrefix(c.Path(), repoModule) {
			return c
		}
	}
	if len(cands) > 0 {
		return cands[0]
	}
	return nil
}

func (v *Verifier) ghost(pkgPath, name string) *GhostFunc {
	if g, ok := v.cs.Ghosts[pkgPath+"|"+name]; ok {
		return g
	}
	if g, ok := v.cs.Ghosts["|"+name]; ok {
		return g
	}
	return nil
}

// definedPure: a pure function whose contract is `ensures result == E` with E depending on the
// arguments only is expanded as an SMT definition. Returns the SMT function name or "".
func (v *Verifier) definedPure(c *FuncCtx, key string, con *Contract, fn *types.Func, argTys []types.Type) string {
	if len(con.Ensures) != 1 || con.PureHeap {
		return ""
	}
	bin, ok := con.Ensures[0].Expr.(*CBin)
	if !ok || bin.Op != "==" {
		return ""
	}
	if id, ok := bin.X.(*CIdent); !ok || id.Name != "result" {
		return ""
	}
	name := "pd_" + sanitize(shortKey(key))
	if c.pureDecl["defpure:"+name] {
		return name
	}
	if c.pureDecl["defpure-failed:"+name] {
		return ""
	}
	sig := fn.Type().(*types.Signature)
	var names []string
	if sig.Recv() != nil {
		n := sig.Recv().Name()
		if n == "" || n == "_" {
			n = "recv"
		}
		names = append(names, n)
	}
	for i := 0; i < sig.Params().Len(); i++ {
		names = append(names, sig.Params().At(i).Name())
	}
	if len(names) != len(argTys) {
		return ""
	}
	pkgPath := con.Pkg
	if pkgPath == "" {
		pkgPath = keyPkgPath(key)
	}
	sub := &evalCtx{c: c, st: &State{m: map[string]Term{}, base: c.newBase()}, bind: map[string]TV{}, pkgPath: pkgPath, binders: 1}
	sub.old = sub.st
	var formals []string
	for i, n := range names {
		fnm := fmt.Sprintf("%s_a%d", name, i)
		s := c.sortOf(argTys[i])
		formals = append(formals, fmt.Sprintf("(%s %s)", fnm, s))
		sub.bind[n] = TV{T: Term{fnm, s}, Ty: argTys[i]}
	}
	nKeys := len(c.initMemo)
	body, err := sub.eval(bin.Y)
	if err != nil || len(c.initMemo) != nKeys {
		// depends on state or cannot be evaluated: fall back to an uninterpreted function
		c.pureDecl["defpure-failed:"+name] = true
		if err != nil {
			c.stale = append(c.stale, fmt.Sprintf("%s:%d: %v", con.Ensures[0].File, con.Ensures[0].Line, err))
		}
		return ""
	}
	rt := sig.Results().At(0).Type()
	body = sub.concretise(body, rt)
	c.sc.axioms = append(c.sc.axioms, fmt.Sprintf("(define-fun %s (%s) %s %s)", name, strings.Join(formals, " "), c.sortOf(rt), body.T.S))
	c.sc.funSeen[name] = true
	c.pureDecl["defpure:"+name] = true
	return name
}

// ---------------------------------------------------------------------------------------------

type FuncResult struct {
	Key         string
	Contract    *Contract
	Script      *Script
	Obls        []*Obligation
	Stale       []string
	Assumptions []string
	Trusted     []string
	CalleeCons  []string
	Uncontracted []string
	Unmodelled  []string
	Ints        string
	Err         error
	ModelVars   []ModelVar
	Replay      *replaySpec
}

func (v *Verifier) newCtx(fn *ssa.Function, con *Contract) *FuncCtx {
	math := con != nil && con.Ints == "math"
	c := &FuncCtx{v: v, sc: newScript(math), top: fn, topCon: con, keys: map[string]keyInfo{}, initMemo: map[string]Term{},
		structs: map[string]*structInfo{}, structNames: map[string]*structInfo{}, tags: map[string]int{}, tagTypes: map[int]types.Type{},
		assumptions: map[string]bool{}, trustedUsed: map[string]bool{}, unmodelled: map[string]bool{}, oblCount: map[string]int{},
		pureDecl: map[string]bool{}, constGlobals: map[string]Term{}, uncontracted: map[string]bool{}, autoInlined: map[string]bool{}, calleeContracts: map[string]bool{}, pureSig: map[string]string{}}
	c.guard = tTrue
	c.sc.onAssume = c.noteAssumption
	if con != nil {
		for _, n := range con.Notes {
			if n == "floats ieee" {
				c.sc.ieeeFloats = true
			}
		}
	}
	if con != nil && math {
		for _, n := range con.Notes {
			if n == "theory strings" {
				c.sc.nativeStr = true
				for _, f := range nativeStrFuns {
					c.sc.funSeen[f] = true
				}
			}
		}
	}
	c.registerKey("epoch", SInt, false)
	if con != nil {
		c.props = con.Props
		c.safety = con.Safety
	}
	if fn != nil {
		c.funcName = shortKey(fnKey(fn))
	}
	return c
}

// verifyFunc generates all obligations for one function under contract.
func (v *Verifier) verifyFunc(fn *ssa.Function, con *Contract) (res *FuncResult) {
	res = &FuncResult{Key: fnKey(fn), Contract: con}
	defer func() {
		if r := recover(); r != nil {
			res.Err = fmt.Errorf("internal error verifying %s: %v", res.Key, r)
			if os.Getenv("GOVC_DEBUG") != "" {
				fmt.Fprintf(os.Stderr, "%s\n", debug.Stack())
			}
			if os.Getenv("GOVC_PANIC") != "" {
				panic(r)
			}
		}
	}()
	c := v.newCtx(fn, con)
	res.Script = c.sc
	res.Ints = "bv"
	if c.sc.mathInts {
		res.Ints = "math"
		c.assumeNote("ints math in " + c.funcName + ": machine arithmetic treated as mathematical (no overflow side obligations generated)")
	}
	fr, err := c.newFrame(fn, con, nil)
	if err != nil {
		res.Err = err
		return
	}
	fr.isTop = true
	st := &State{m: map[string]Term{}, base: c.newBase()}
	// parameters
	for _, p := range fn.Params {
		t := c.freshOfType("p_"+p.Name(), p.Type())
		fr.env[p] = &Val{T: []Term{t}}
		fr.params[p.Name()] = TV{T: t, Ty: p.Type()}
		res.ModelVars = append(res.ModelVars, ModelVar{p.Name(), t})
		c.assumeEntry(t, p.Type(), p.Name(), con)
		c.noteValueRefs(t, p.Type())
	}
	for _, fv := range fn.FreeVars {
		t := c.freshOfType("fv_"+fv.Name(), fv.Type())
		fr.env[fv] = &Val{T: []Term{t}}
		c.sc.assume(not(eq(t, Term{"nil_ref", SRef})))
		c.preexisting(t)
		c.privateRefs = append(c.privateRefs, privRef{t, nil, fr})
		c.assumeNote("captured variables of a closure are changed only by the enclosing function and its closures (not by other callees)")
	}
	for i := range fn.FreeVars {
		for j := range fn.FreeVars {
			if i < j {
				c.sc.assume(not(eq(fr.env[fn.FreeVars[i]].T[0], fr.env[fn.FreeVars[j]].T[0])))
			}
		}
	}
	fr.setReach(tTrue)
	res.Replay = c.buildReplaySpec(fr, st)
	// requires: assumed
	ec := fr.evalCtx(st, st, fn.Pos())
	ec.entryPar = true
	var reqs []Term
	for _, cl := range con.Requires {
		t, err := ec.evalClause(cl.Expr)
		if err != nil {
			c.stale = append(c.stale, fmt.Sprintf("%s:%d: %v", cl.File, cl.Line, err))
			continue
		}
		c.sc.assume(t)
		reqs = append(reqs, t)
	}
	for _, cl := range con.Axioms {
		t, err := ec.evalBool(cl.Expr)
		if err != nil {
			c.stale = append(c.stale, fmt.Sprintf("%s:%d: %v", cl.File, cl.Line, err))
			continue
		}
		c.sc.assume(t)
		c.trustedUsed["definitional axiom in "+c.funcName+": "+oneLine(cl.Text)] = true
	}
	for _, name := range con.Uses {
		var lm *Lemma
		for _, l := range v.cs.Lemmas {
			if l.Name == name && (l.Pkg == con.Pkg || l.Pkg == "") {
				lm = l
			}
		}
		if lm == nil {
			c.stale = append(c.stale, fmt.Sprintf("%s:%d: uses unknown lemma %s", con.File, con.Line, name))
			continue
		}
		lec := &evalCtx{c: c, st: st, old: st, bind: map[string]TV{}, pkgPath: lm.Pkg}
		if lm.Pkg == "" {
			lec.pkgPath = con.Pkg
		}
		t, err := lec.evalBool(lm.Clause.Expr)
		if err != nil {
			c.stale = append(c.stale, fmt.Sprintf("%s:%d: %v", lm.Clause.File, lm.Clause.Line, err))
			continue
		}
		c.sc.assume(t)
		if lm.Axiom {
			c.trustedUsed["axiom "+lm.Name+": "+oneLine(lm.Clause.Text)] = true
		} else {
			c.calleeContracts["lemma "+lm.Name+" (proved separately)"] = true
		}
	}
	// vacuity: the preconditions are satisfiable
	c.sc.oblige(&Obligation{Name: c.funcName + "/cover/requires#1", Kind: "cover", Func: c.funcName, Props: c.props, Goal: tTrue, Cover: true, Detail: "preconditions and entry assumptions are satisfiable"})
	if err := fr.run(st, tTrue); err != nil {
		res.Err = err
		return
	}
	fr.checkEnsures()
	// explicit cover clauses
	for _, cl := range con.Covers {
		if cl.Callee == "" && strings.HasPrefix(cl.Text, "return") {
			var conds []Term
			for _, r := range fr.rets {
				conds = append(conds, r.reach)
			}
			c.sc.oblige(&Obligation{Name: c.funcName + "/cover/return#1", Kind: "cover", Func: c.funcName, Props: c.props, Goal: c.sc.define("cov", or(conds...)), Cover: true, Detail: "function can return"})
		} else if cl.Callee != "" && !cl.matched {
			c.stale = append(c.stale, fmt.Sprintf("%s:%d: cover refers to a call site that does not exist: %s", cl.File, cl.Line, cl.Text))
		}
	}
	for _, cl := range con.Sinks {
		if !cl.matched && !cl.Optional {
			c.stale = append(c.stale, fmt.Sprintf("%s:%d: sink clause matches no call site: call %s #%d", cl.File, cl.Line, cl.Callee, cl.Ord))
		}
	}
	for _, cl := range con.Invs {
		if cl.LoopAnchor != "" {
			if fr.anchorOrdinal(cl.LoopAnchor) == 0 {
				c.stale = append(c.stale, fmt.Sprintf("%s:%d: no loop of the function calls %s", cl.File, cl.Line, cl.LoopAnchor))
			}
			continue
		}
		if cl.Loop < 1 || cl.Loop > len(fr.loops.heads) {
			c.stale = append(c.stale, fmt.Sprintf("%s:%d: loop ordinal %d out of range (function has %d loops)", cl.File, cl.Line, cl.Loop, len(fr.loops.heads)))
		}
	}
	res.Obls = c.sc.obls
	res.Stale = c.stale
	res.Assumptions = sortedKeys(c.assumptions)
	res.Trusted = sortedKeys(c.trustedUsed)
	res.CalleeCons = sortedKeys(c.calleeContracts)
	res.Uncontracted = sortedKeys(c.uncontracted)
	res.Unmodelled = sortedKeys(c.unmodelled)
	for _, o := range res.Obls {
		o.ModelOf = res.ModelVars
	}
	return
}

func sortedKeys(m map[string]bool) []string {
	out := make([]string, 0, len(m))
	for k := range m {
		out = append(out, k)
	}
	sort.Strings(out)
	return out
}

// assumeEntry: facts about parameters at function entry.
func (c *FuncCtx) assumeEntry(t Term, ty types.Type, name string, con *Contract) {
	switch under(ty).(type) {
	case *types.Pointer:
		c.preexisting(t)
		if con == nil || !con.Nullable[name] {
			c.sc.assume(not(eq(t, Term{"nil_ref", SRef})))
			c.assumeNote("pointer parameters / receivers are non-nil unless declared nullable")
		}
	case *types.Map, *types.Chan:
		c.preexisting(t)
	case *types.Slice:
		c.preexisting(slPtr(t))
	case *types.Interface:
		if con != nil && con.Nonnil[name] {
			c.sc.assume(not(eq(ifTag(t), Term{"0", SInt})))
		}
	}
}

func (c *FuncCtx) assumeG(t Term) {
	c.sc.assume(implies(c.guard, t))
}

func (c *FuncCtx) wfTerm(v Term, t types.Type) Term {
	switch u := under(t).(type) {
	case *types.Slice:
		return c.sliceWF(v)
	case *types.Basic:
		if u.Info()&types.IsString != 0 {
			return c.strWF(v)
		}
		if c.sc.mathInts && u.Info()&types.IsInteger != 0 {
			return c.intRange(v, t)
		}
	case *types.Interface:
		return mk(SBool, ">=", ifTag(v), Term{"0", SInt})
	case *types.Struct:
		if c.wfDepth > 3 {
			return tTrue
		}
		c.wfDepth++
		defer func() { c.wfDepth-- }()
		var parts []Term
		for i := 0; i < u.NumFields(); i++ {
			ft := u.Field(i).Type()
			switch under(ft).(type) {
			case *types.Slice, *types.Basic, *types.Interface, *types.Struct:
				if w := c.wfTerm(c.fieldSel(v, t, i), ft); w.S != "true" {
					parts = append(parts, w)
				}
			}
		}
		return and(parts...)
	}
	return tTrue
}

// checkEnsures proves the postconditions at the join of all returns.
func (fr *Frame) checkEnsures() {
	if fr.con == nil || len(fr.rets) == 0 {
		return
	}
	if fr.con.PerReturn && len(fr.rets) > 1 {
		// one set of obligations per return statement (in source order): easier for the solver
		// than the join of all exits when postconditions are quantified
		rets := append([]retInfo{}, fr.rets...)
		sort.SliceStable(rets, func(i, j int) bool { return rets[i].pos < rets[j].pos })
		all := fr.rets
		for i, r := range rets {
			fr.rets = []retInfo{r}
			fr.checkEnsuresAt(fmt.Sprintf("@return%d", i+1))
		}
		fr.rets = all
		return
	}
	fr.checkEnsuresAt("")
}

func (fr *Frame) checkEnsuresAt(suffix string) {
	c := fr.c
	var ies []inEdge
	var conds []Term
	for _, r := range fr.rets {
		ies = append(ies, inEdge{r.reach, r.st})
		conds = append(conds, r.reach)
	}
	st := c.mergeStates(ies, "exit")
	reach := c.sc.define("reach_exit", or(conds...))
	tup := fr.fn.Signature.Results()
	var results []TV
	for i := 0; i < tup.Len(); i++ {
		t := fr.rets[len(fr.rets)-1].vals[i]
		for j := len(fr.rets) - 2; j >= 0; j-- {
			t = ite(fr.rets[j].reach, fr.rets[j].vals[i], t)
		}
		results = append(results, TV{T: c.sc.define("result", t), Ty: tup.At(i).Type()})
	}
	ec := fr.evalCtx(st, fr.entry, fr.rets[len(fr.rets)-1].pos)
	ec = ec.sub()
	ec.entryPar = true
	for i, r := range results {
		if n := tup.At(i).Name(); n != "" && n != "_" {
			ec.bind[n] = r
		}
	}
	if len(results) == 1 {
		ec.bind["result"] = results[0]
	} else if len(results) > 1 {
		ec.bind["result"] = TV{Tuple: results}
	}
	saveGuard := c.guard
	c.guard = reach
	for i, cl := range fr.con.Ensures {
		if !clauseInProperty(cl) {
			continue
		}
		t, err := ec.evalClause(cl.Expr)
		if err != nil {
			c.stale = append(c.stale, fmt.Sprintf("%s:%d: %v", cl.File, cl.Line, err))
			continue
		}
		// vacuity guard: the antecedent of a top-level implication must be reachable
		if bin, ok := cl.Expr.(*CBin); ok && bin.Op == "==>" && suffix == "" {
			if a, err := ec.evalBool(bin.X); err == nil {
				name := fmt.Sprintf("%s/cover/ensures-antecedent/%s%s", c.funcName, clauseLabel(cl, i), suffix)
				if fr.fn != c.top {
					name = fmt.Sprintf("%s/cover@%s/ensures-antecedent/%s", c.funcName, shortFn(fr.fn, c.top), clauseLabel(cl, i))
				}
				c.sc.oblige(&Obligation{Name: name + "#1", Kind: "cover", Func: c.funcName, Props: c.props, Goal: c.sc.define("cov", and(reach, a)), Cover: true, Detail: "antecedent reachable: " + oneLine(cl.Text)})
			}
		}
		c.pendingParts, c.pendingGuard = ec.clauseParts(cl.Expr), reach
		fr.oblige("ensures", clauseLabel(cl, i)+suffix, implies(reach, t), token.NoPos, oneLine(cl.Text))
	}
	// frame: a pure / modifies-nothing function leaves every pre-existing heap object unchanged
	exceptNames := modifiesPointees(fr.con)
	if fr.isTop && (fr.con.Pure || modifiesNothing(fr.con) || len(exceptNames) > 0) {
		except := fr.frameExcept()
		var keys []string
		for k, ki := range c.keys {
			if !ki.local && k != "epoch" {
				keys = append(keys, k)
			}
		}
		sort.Strings(keys)
		for _, k := range keys {
			entry, final := c.get(fr.entry, k), c.get(st, k)
			if entry.S == final.S {
				continue
			}
			var goal Term
			if strings.HasPrefix(string(entry.Sort), "(Array Ref ") {
				inner := Sort(strings.TrimSuffix(strings.TrimPrefix(string(entry.Sort), "(Array Ref "), ")"))
				c.sc.declFun("alloc_id", []Sort{SRef}, SInt)
				guard := "(<= (alloc_id r) 0)"
				for _, e := range except {
					guard = fmt.Sprintf("(and %s (not (= r %s)))", guard, e.S)
				}
				goal = Term{fmt.Sprintf("(forall ((r Ref)) (=> %s (= %s %s)))", guard, sel(final, Term{"r", SRef}, inner).S, sel(entry, Term{"r", SRef}, inner).S), SBool}
			} else {
				goal = eq(final, entry)
			}
			what := "modifies nothing"
			if len(exceptNames) > 0 {
				what = "modifies only *" + strings.Join(exceptNames, ", *")
			}
			fr.oblige("frame", sanitize(k)+suffix, implies(reach, goal), token.NoPos, what+": "+k+" unchanged for every other object that existed at entry")
		}
	}
	c.guard = saveGuard
}

// ---------------------------------------------------------------------------------------------
// lemmas

func (v *Verifier) verifyLemma(lm *Lemma) *FuncResult {
	res := &FuncResult{Key: "lemma " + lm.Name}
	con := &Contract{Ints: lm.Ints, Props: lm.Props}
	c := v.newCtx(nil, con)
	c.funcName = "lemma:" + lm.Name
	c.inLemma = true
	res.Script = c.sc
	res.Ints = "bv"
	if c.sc.mathInts {
		res.Ints = "math"
	}
	defer func() {
		if r := recover(); r != nil {
			res.Err = fmt.Errorf("internal error in lemma %s: %v", lm.Name, r)
		}
	}()
	st := &State{m: map[string]Term{}, base: c.newBase()}
	ec := &evalCtx{c: c, st: st, old: st, bind: map[string]TV{}, pkgPath: lm.Pkg}
	// axioms of the same package are assumed
	for _, ax := range v.cs.Lemmas {
		if ax.Axiom && (ax.Pkg == lm.Pkg || ax.Pkg == "") {
			t, err := ec.evalBool(ax.Clause.Expr)
			if err != nil {
				c.stale = append(c.stale, fmt.Sprintf("%s:%d: %v", ax.Clause.File, ax.Clause.Line, err))
				continue
			}
			c.sc.assume(t)
			c.trustedUsed["axiom "+ax.Name] = true
		}
	}
	t, err := ec.evalBool(lm.Clause.Expr)
	if err != nil {
		c.stale = append(c.stale, fmt.Sprintf("%s:%d: %v", lm.Clause.File, lm.Clause.Line, err))
	} else {
		c.sc.oblige(&Obligation{Name: "lemma:" + lm.Name + "/cover/axioms#1", Kind: "cover", Func: c.funcName, Props: lm.Props, Goal: tTrue, Cover: true, Detail: "axioms are satisfiable"})
		g := c.sc.define("goal", t)
		c.sc.oblige(&Obligation{Name: "lemma:" + lm.Name + "#1", Kind: "lemma", Func: c.funcName, Props: lm.Props, Goal: g, Detail: oneLine(lm.Clause.Text)})
	}
	res.Obls = c.sc.obls
	res.Stale = c.stale
	res.Trusted = sortedKeys(c.trustedUsed)
	res.Assumptions = sortedKeys(c.assumptions)
	return res
}

// contractFiles lists the repository packages (import paths) that carry contract files, with the
// properties mentioned in each.
func contractPackages(repo string) (map[string][]string, error) {
	out := map[string][]string{}
	err := filepath.Walk(repo, func(path string, info os.FileInfo, err error) error {
		if err != nil {
			return nil
		}
		if info.IsDir() && (info.Name() == ".git" || info.Name() == "node_modules") {
			return filepath.SkipDir
		}
		if !info.IsDir() && info.Name() == "zz_contracts_verif.go" {
			rel, _ := filepath.Rel(repo, filepath.Dir(path))
			data, _ := os.ReadFile(path)
			props := map[string]bool{}
			for _, line := range strings.Split(string(data), "\n") {
				t := strings.TrimSpace(line)
				if strings.HasPrefix(t, "//@") {
					f := strings.Fields(t[3:])
					if len(f) > 1 && f[0] == "prop" {
						for _, p := range f[1:] {
							props[p] = true
						}
					}
				}
			}
			out["./"+filepath.ToSlash(rel)] = sortedKeys(props)
		}
		return nil
	})
	return out, err
}

// frameExcept: the objects a `modifies *p, *recv.field` clause allows the function to change
// (evaluated in the entry state, once).
func (fr *Frame) frameExcept() []Term {
	c := fr.c
	if fr.exceptDone {
		return fr.except
	}
	fr.exceptDone = true
	for _, n := range modifiesPointees(fr.con) {
		if tv, ok := fr.params[n]; ok && tv.T.Sort == SRef {
			fr.except = append(fr.except, tv.T)
		} else if !isPlainIdent(n) {
			ex, err := parseCExpr(n)
			var tv TV
			if err == nil {
				ec := fr.evalCtx(fr.entry, fr.entry, token.NoPos)
				ec.entryPar = true
				tv, err = ec.eval(ex)
			}
			switch {
			case err != nil:
				c.stale = append(c.stale, fmt.Sprintf("%s:%d: modifies *%s: %v", fr.con.File, fr.con.Line, n, err))
			case tv.T.Sort == SRef:
				fr.except = append(fr.except, tv.T)
			case tv.T.Sort == SSlice:
				fr.except = append(fr.except, slPtr(tv.T))
			default:
				c.stale = append(c.stale, fmt.Sprintf("%s:%d: modifies *%s: not a pointer, map or slice", fr.con.File, fr.con.Line, n))
			}
		} else {
			c.stale = append(c.stale, fmt.Sprintf("%s:%d: modifies *%s: not a pointer parameter", fr.con.File, fr.con.Line, n))
		}
	}
	return fr.except
}

// checkedProperty is the property of the current `govc check` run ("" for dump / selftest of everything).
var checkedProperty string

// clauseInProperty: a clause labelled `[Cnn: name]` is generated only when property Cnn is being checked.
func clauseInProperty(cl *Clause) bool {
	if len(cl.OnlyProps) == 0 || checkedProperty == "" {
		return true
	}
	for _, p := range cl.OnlyProps {
		if p == checkedProperty {
			return true
		}
	}
	return false
}
