package main

import (
	"fmt"
	"go/types"
	"strings"
)

// sortOf maps a Go type to its SMT sort (declaring struct datatypes on demand).
// under: the underlying type; for a type parameter the underlying type of its core type
// (S ~[]E has core type []E), so generic bodies are read like their instances.
func under(t types.Type) types.Type {
	if tp, ok := t.(*types.TypeParam); ok {
		if iface, ok := tp.Constraint().Underlying().(*types.Interface); ok && iface.NumEmbeddeds() == 1 {
			if un, ok := iface.EmbeddedType(0).(*types.Union); ok && un.Len() == 1 {
				return under(un.Term(0).Type())
			}
		}
		return tp.Constraint().Underlying()
	}
	return t.Underlying()
}

func (c *FuncCtx) sortOf(t types.Type) Sort {
	switch u := under(t).(type) {
	case *types.Basic:
		switch {
		case u.Info()&types.IsBoolean != 0:
			return SBool
		case u.Info()&types.IsInteger != 0:
			if c.sc.mathInts {
				// one alias of Int per Go integer kind: the SMT sort is Int, but heap arrays stay
				// separated by element type (a []uint32 cannot alias a []byte)
				return mathIntSort(u)
			}
			return bvSort(intWidth(u))
		case u.Info()&types.IsString != 0:
			return SStr
		case u.Info()&types.IsFloat != 0, u.Info()&types.IsComplex != 0:
			return SFloat
		case u.Kind() == types.UnsafePointer:
			return SRef
		case u.Kind() == types.UntypedNil:
			return SRef
		}
		return SAny
	case *types.Pointer, *types.Map, *types.Chan:
		return SRef
	case *types.Signature:
		return SFn
	case *types.Interface:
		return SIface
	case *types.Slice:
		return SSlice
	case *types.Array:
		return arraySort(c.sc.idxSort(), c.sortOf(u.Elem()))
	case *types.Struct:
		return c.structSort(u)
	case *types.Tuple:
		return SAny
	}
	return SAny
}

func intWidth(b *types.Basic) int {
	switch b.Kind() {
	case types.Int8, types.Uint8:
		return 8
	case types.Int16, types.Uint16:
		return 16
	case types.Int32, types.Uint32:
		return 32
	}
	return 64
}

func isUnsigned(t types.Type) bool {
	b, ok := under(t).(*types.Basic)
	return ok && b.Info()&types.IsUnsigned != 0
}

func isInteger(t types.Type) bool {
	b, ok := under(t).(*types.Basic)
	return ok && b.Info()&types.IsInteger != 0
}

func isString(t types.Type) bool {
	b, ok := under(t).(*types.Basic)
	return ok && b.Info()&types.IsString != 0
}

func isBoolean(t types.Type) bool {
	b, ok := under(t).(*types.Basic)
	return ok && b.Info()&types.IsBoolean != 0
}

func widthOf(t types.Type) int {
	if b, ok := under(t).(*types.Basic); ok {
		return intWidth(b)
	}
	return 64
}

type structInfo struct {
	name   string
	sort   Sort
	fields []Sort
	st     *types.Struct
}

func (c *FuncCtx) structSort(st *types.Struct) Sort {
	key := types.TypeString(st, nil)
	if si, ok := c.structs[key]; ok {
		return si.sort
	}
	name := fmt.Sprintf("S%d", len(c.structs))
	si := &structInfo{name: name, sort: Sort(name), st: st}
	c.structs[key] = si
	var b strings.Builder
	for i := 0; i < st.NumFields(); i++ {
		fs := c.sortOf(st.Field(i).Type())
		si.fields = append(si.fields, fs)
	}
	fmt.Fprintf(&b, "(declare-datatypes ((%s 0)) (((mk_%s", name, name)
	for i, fs := range si.fields {
		fmt.Fprintf(&b, " (%s_f%d %s)", name, i, fs)
	}
	b.WriteString("))))")
	c.sc.declSort(name, b.String())
	c.structNames[name] = si
	return si.sort
}

func (c *FuncCtx) structInfoOf(t types.Type) *structInfo {
	st, ok := under(t).(*types.Struct)
	if !ok {
		return nil
	}
	c.structSort(st)
	return c.structs[types.TypeString(st, nil)]
}

func (c *FuncCtx) fieldSel(v Term, t types.Type, i int) Term {
	si := c.structInfoOf(t)
	return mk(si.fields[i], fmt.Sprintf("%s_f%d", si.name, i), v)
}

func (c *FuncCtx) fieldUpd(v Term, t types.Type, i int, nv Term) Term {
	si := c.structInfoOf(t)
	args := make([]Term, len(si.fields))
	for j := range si.fields {
		if j == i {
			args[j] = nv
		} else {
			args[j] = mk(si.fields[j], fmt.Sprintf("%s_f%d", si.name, j), v)
		}
	}
	return mk(si.sort, "mk_"+si.name, args...)
}

func (c *FuncCtx) zero(t types.Type) Term {
	switch u := under(t).(type) {
	case *types.Basic:
		switch {
		case u.Info()&types.IsBoolean != 0:
			return tFalse
		case u.Info()&types.IsInteger != 0:
			return c.sc.intLit(0, intWidth(u))
		case u.Info()&types.IsString != 0:
			return c.sc.strConst("")
		case u.Info()&types.IsFloat != 0, u.Info()&types.IsComplex != 0:
			return Term{"flt_zero", SFloat}
		}
		return Term{"nil_ref", SRef}
	case *types.Pointer, *types.Map, *types.Chan:
		return Term{"nil_ref", SRef}
	case *types.Signature:
		return Term{"nil_fn", SFn}
	case *types.Interface:
		return c.nilIface()
	case *types.Slice:
		return c.nilSlice()
	case *types.Array:
		return c.zeroArray(u.Elem())
	case *types.Struct:
		si := c.structInfoOf(t)
		args := make([]Term, u.NumFields())
		for i := range args {
			args[i] = c.zero(u.Field(i).Type())
		}
		if len(args) == 0 {
			return Term{"mk_" + si.name, si.sort}
		}
		return mk(si.sort, "mk_"+si.name, args...)
	}
	return c.sc.fresh("zero", c.sortOf(t))
}

func (c *FuncCtx) nilIface() Term { return Term{"(mk_iface 0 any_nil)", SIface} }

func (c *FuncCtx) nilSlice() Term {
	z := c.sc.idxLit(0).S
	return Term{fmt.Sprintf("(mk_slice nil_ref %s %s %s)", z, z, z), SSlice}
}

func slPtr(s Term) Term            { return mk(SRef, "sl_ptr", s) }
func (c *FuncCtx) slOff(s Term) Term { return mk(c.sc.idxSort(), "sl_off", s) }
func (c *FuncCtx) slLen(s Term) Term { return mk(c.sc.idxSort(), "sl_len", s) }
func (c *FuncCtx) slCap(s Term) Term { return mk(c.sc.idxSort(), "sl_cap", s) }
func (c *FuncCtx) mkSlice(ptr, off, ln, cp Term) Term {
	return mk(SSlice, "mk_slice", ptr, off, ln, cp)
}

func ifTag(i Term) Term { return mk(SInt, "if_tag", i) }
func ifVal(i Term) Term { return mk(SAny, "if_val", i) }

// typeTag returns the (positive) integer tag of a concrete dynamic type.
func (c *FuncCtx) typeTag(t types.Type) int {
	key := types.TypeString(t, nil)
	if id, ok := c.tags[key]; ok {
		return id
	}
	id := len(c.tags) + 1
	c.tags[key] = id
	c.tagTypes[id] = t
	return id
}

func sortTag(s Sort) string { return sanitize(string(s)) }

// box/unbox between a sort and Any (payload of interfaces).
func (c *FuncCtx) box(v Term) Term {
	name := "box_" + sortTag(v.Sort)
	c.sc.declFun(name, []Sort{v.Sort}, SAny)
	un := "unbox_" + sortTag(v.Sort)
	c.sc.declFun(un, []Sort{SAny}, v.Sort)
	b := mk(SAny, name, v)
	// injectivity instance (not for a term under a binder: the assumption would mention the bound
	// variable outside its scope; congruence of box_ is all a quantified clause gets)
	if !strings.Contains(v.S, "q_") {
		c.sc.assume(eq(mk(v.Sort, un, b), v))
	}
	return b
}

func (c *FuncCtx) unbox(a Term, s Sort) Term {
	name := "box_" + sortTag(s)
	c.sc.declFun(name, []Sort{s}, SAny)
	un := "unbox_" + sortTag(s)
	c.sc.declFun(un, []Sort{SAny}, s)
	return mk(s, un, a)
}

func (c *FuncCtx) makeIface(v Term, t types.Type) Term {
	if _, ok := under(t).(*types.Interface); ok {
		return v // interface to interface
	}
	tag := c.typeTag(t)
	return Term{fmt.Sprintf("(mk_iface %d %s)", tag, c.box(v).S), SIface}
}

// heap keys
func heapKey(s Sort) string { return "H:" + string(s) }
func elemKey(s Sort) string { return "E:" + string(s) }
func mapDomKey(k Sort) string { return "MD:" + string(k) }
func mapValKey(k, v Sort) string { return "MV:" + string(k) + ":" + string(v) }

func (c *FuncCtx) heapSort(s Sort) Sort { return arraySort(SRef, s) }
func (c *FuncCtx) elemHeapSort(s Sort) Sort {
	return arraySort(SRef, arraySort(c.sc.idxSort(), s))
}

func (c *FuncCtx) regHeap(s Sort) string {
	k := heapKey(s)
	c.registerKey(k, c.heapSort(s), false)
	return k
}

func (c *FuncCtx) regElem(s Sort) string {
	k := elemKey(s)
	c.registerKey(k, c.elemHeapSort(s), false)
	return k
}

func (c *FuncCtx) regMap(ks, vs Sort) (string, string) {
	dk, vk := mapDomKey(ks)+":"+string(vs), mapValKey(ks, vs)
	c.registerKey(dk, arraySort(SRef, arraySort(ks, SBool)), false)
	c.registerKey(vk, arraySort(SRef, arraySort(ks, vs)), false)
	return dk, vk
}

// zeroArray: the all-zero array of element type et (nil / "" are nullary constructors, so every
// zero value is an SMT value term and `as const` is accepted by all back ends).
func (c *FuncCtx) zeroArray(et types.Type) Term {
	es := c.sortOf(et)
	as := arraySort(c.sc.idxSort(), es)
	return Term{fmt.Sprintf("((as const %s) %s)", as, c.zero(et).S), as}
}

func mathIntSort(b *types.Basic) Sort {
	w := intWidth(b)
	if b.Info()&types.IsUnsigned != 0 {
		return Sort(fmt.Sprintf("Int_u%d", w))
	}
	return Sort(fmt.Sprintf("Int_i%d", w))
}

func isMathIntSort(s Sort) bool {
	return s == SInt || strings.HasPrefix(string(s), "Int_")
}
