package main

// Symbolic state: a persistent map from state keys (local cells, heap arrays, globals, ghost
// variables, defer registrations) to SMT terms, with lazily created initial values per "base"
// (a base changes when everything is havoced, e.g. by a call without contract).

import (
	"fmt"
	"sort"
	"strings"
)

type Base struct {
	id      int
	merge   []baseEdge
	prev    *State // state before the havoc that created this base
	private []Term // references private to the function at that time (unreachable for callees)
}

type baseEdge struct {
	cond Term
	b    *Base
}

type State struct {
	m    map[string]Term
	base *Base
}

func (s *State) clone() *State {
	n := &State{m: make(map[string]Term, len(s.m)), base: s.base}
	for k, v := range s.m {
		n.m[k] = v
	}
	return n
}

func (s *State) set(k string, t Term) { s.m[k] = t }

func (s *State) has(k string) bool { _, ok := s.m[k]; return ok }

// keySorts remembers the sort of every state key ever used (needed to create initial values).
type keyInfo struct {
	sort  Sort
	local bool // local cell: not affected by havoc-all
}

func (c *FuncCtx) registerKey(k string, sort Sort, local bool) {
	if ki, ok := c.keys[k]; ok {
		if ki.sort != sort {
			panic(fmt.Sprintf("state key %s used with sorts %s and %s", k, ki.sort, sort))
		}
		return
	}
	c.keys[k] = keyInfo{sort, local}
}

// get returns the current value of key k, creating the initial value lazily.
func (c *FuncCtx) get(s *State, k string) Term {
	if t, ok := s.m[k]; ok {
		return t
	}
	ki, ok := c.keys[k]
	if !ok {
		panic("unregistered state key " + k)
	}
	if t, ok := c.constGlobals[k]; ok {
		s.m[k] = t
		return t
	}
	if ki.local && strings.HasPrefix(k, "G:") {
		// a package-level variable that is never assigned: one value for the whole function
		t := c.initVal(k, ki.sort, &Base{id: 0})
		c.constGlobals[k] = t
		s.m[k] = t
		return t
	}
	t := c.initVal(k, ki.sort, s.base)
	s.m[k] = t
	return t
}

func (c *FuncCtx) initVal(k string, sort Sort, b *Base) Term {
	mk := fmt.Sprintf("%s@%d", k, b.id)
	if t, ok := c.initMemo[mk]; ok {
		return t
	}
	var t Term
	if len(b.merge) == 0 {
		t = c.sc.fresh("h_"+k, sort)
		// objects that never left the function cannot have been changed by whatever caused the havoc
		if b.prev != nil && len(b.private) > 0 && strings.HasPrefix(string(sort), "(Array Ref ") {
			inner := Sort(strings.TrimSuffix(strings.TrimPrefix(string(sort), "(Array Ref "), ")"))
			old := c.get(b.prev, k)
			for _, r := range b.private {
				c.sc.assume(eq(sel(t, r, inner), sel(old, r, inner)))
			}
		}
	} else {
		t = c.initVal(k, sort, b.merge[len(b.merge)-1].b)
		for i := len(b.merge) - 2; i >= 0; i-- {
			t = ite(b.merge[i].cond, c.initVal(k, sort, b.merge[i].b), t)
		}
		t = c.sc.define("m_"+k, t)
	}
	c.initMemo[mk] = t
	return t
}

func (c *FuncCtx) newBase() *Base {
	c.baseN++
	return &Base{id: c.baseN}
}

// havocAll forgets every non-local key (heap arrays, globals that are assigned somewhere, ghost state).
func (c *FuncCtx) havocAll(s *State) {
	var oldEpoch *Term
	if _, ok := c.keys["epoch"]; ok {
		e := c.get(s, "epoch")
		oldEpoch = &e
	}
	var prev *State
	if len(c.privateRefs) > 0 {
		prev = s.clone()
	}
	for k := range s.m {
		if ki := c.keys[k]; !ki.local {
			delete(s.m, k)
		}
	}
	s.base = c.newBase()
	if prev != nil {
		s.base.prev = prev
		for _, p := range c.privateRefs {
			s.base.private = append(s.base.private, p.t)
		}
	}
	// the epoch is registered lazily; make it strictly increasing across havocs when in use,
	// and remember the havoc so that an epoch registered later is still fresh per base.
	if oldEpoch != nil {
		n := c.sc.fresh("epoch", SInt)
		c.sc.assume(mk(SBool, ">", n, *oldEpoch))
		s.m["epoch"] = n
	}
}

type inEdge struct {
	cond Term // reach(pred) && branch condition
	st   *State
}

// mergeStates joins the states of the incoming edges.
func (c *FuncCtx) mergeStates(edges []inEdge, label string) *State {
	if len(edges) == 1 {
		return edges[0].st.clone()
	}
	out := &State{m: map[string]Term{}}
	sameBase := true
	for _, e := range edges[1:] {
		if e.st.base != edges[0].st.base {
			sameBase = false
		}
	}
	if sameBase {
		out.base = edges[0].st.base
	} else {
		nb := c.newBase()
		for _, e := range edges {
			nb.merge = append(nb.merge, baseEdge{e.cond, e.st.base})
		}
		out.base = nb
	}
	keyset := map[string]bool{}
	for _, e := range edges {
		for k := range e.st.m {
			keyset[k] = true
		}
	}
	keys := make([]string, 0, len(keyset))
	for k := range keyset {
		keys = append(keys, k)
	}
	sort.Strings(keys)
	for _, k := range keys {
		ki := c.keys[k]
		// local cells that are not defined on every edge are out of scope after the join
		if ki.local {
			all := true
			for _, e := range edges {
				if !e.st.has(k) {
					all = false
				}
			}
			if !all && !(label == "exit" && strings.HasPrefix(k, "L:")) {
				continue
			}
		}
		vals := make([]Term, len(edges))
		same := true
		for i, e := range edges {
			if ki.local && !e.st.has(k) {
				// at the function exit a postcondition may name a local that a return path never
				// declared: it has an arbitrary value on that path
				vals[i] = c.sc.fresh("undeclared", ki.sort)
				same = false
				continue
			}
			vals[i] = c.get(e.st, k)
			if vals[i].S != vals[0].S {
				same = false
			}
		}
		if same {
			out.m[k] = vals[0]
			continue
		}
		t := vals[len(vals)-1]
		for i := len(vals) - 2; i >= 0; i-- {
			t = ite(edges[i].cond, vals[i], t)
		}
		out.m[k] = c.sc.define("j_"+label+"_"+k, t)
	}
	return out
}
