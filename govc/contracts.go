package main

// Contract files: //@ lines in /repo/<pkg>/zz_contracts_verif.go (build tag verif, comment-only)
// and in /verif/contracts/external/*.spec (same syntax, lines without the //@ prefix allowed).

import (
	"bufio"
	"fmt"
	"os"
	"path/filepath"
	"strconv"
	"strings"
)

type Clause struct {
	Kind   string // requires, ensures, invariant, decreases, sink, cover, lemma, axiom, define, assume-ensures
	Loop   int    // loop ordinal for invariant/decreases
	LoopAnchor string // `loop @callee ...`: the innermost loop whose body calls callee (robust against reordering of loops)
	Callee string // sink: callee key
	Ord    int    // sink: ordinal (0 = all)
	Optional bool // sink with #?: all sites, and it is fine if there is none
	OnlyProps []string // clause restricted to these properties (label `[Cnn: name]`)
	Text   string
	Expr   CExpr
	Label  string // optional label: `ensures [name] E`
	matched bool
	File   string
	Line   int
}

type GhostFunc struct {
	Name   string
	Params []CVar
	Result *CType
	Define *Clause // optional definition body
	Pkg    string
}

type Contract struct {
	Key       string // function key as written
	Pkg       string // package path the block was declared in ("" for external)
	Props     []string
	Ints      string // "", bv, math
	Pure      bool
	PureHeap  bool // pure but reads the heap (epoch-dependent)
	PerReturn bool // postconditions are checked at each return separately
	Opaque    bool // pure function used as an uninterpreted symbol by other functions (its definition is only unfolded in lemmas)
	Uses      []string // lemmas (proved separately) assumed at entry
	Trusted   bool
	Safety    bool
	Inline    bool
	NoReturn  bool
	Benign    bool // no heap effects (havocs nothing) but result is fresh
	AssumeBenign bool // callers assume no heap effects; NOT verified against the body (listed as assumption)
	Modifies  []string
	Nullable  map[string]bool
	Nonnil    map[string]bool
	Requires  []*Clause
	Ensures   []*Clause
	Invs      []*Clause
	Decreases []*Clause
	Sinks     []*Clause
	Covers    []*Clause
	Axioms    []*Clause // definitional axioms of ghost functions, assumed at entry (listed as assumptions)
	Unroll    map[int]int // loop ordinal -> unroll count (bounded stand-in)
	UnrollAnchor map[string]int // the same, for loops named by a callee
	HO        string      // higher-order summary: "once" (invokes func args at most once)
	External  bool
	File      string
	Line      int
	Used      bool
	Replay    []string // replay recipe lines (Go source)
	Fresh     []string // results that are freshly allocated
	Notes     []string
}

type Lemma struct {
	Name   string
	Pkg    string
	Props  []string
	Clause *Clause
	Axiom  bool
	Ints   string
}

type ContractSet struct {
	ByKey   map[string][]*Contract // normalised key -> contracts
	Ghosts  map[string]*GhostFunc  // pkg|name -> ghost
	Lemmas  []*Lemma
	Pattern []*Contract // keys containing '*'
	Files   []string
}

var clauseKeywords = map[string]bool{
	"prop": true, "ints": true, "pure": true, "uses": true, "per-return": true, "trusted": true, "safety": true, "inline": true, "noreturn": true,
	"benign": true, "assume-benign": true, "modifies": true, "nullable": true, "nonnil": true, "requires": true, "ensures": true,
	"loop": true, "decreases": true, "call": true, "cover": true, "define": true, "summary": true,
	"bounded": true, "replay": true, "fresh": true, "note": true, "theory": true,
}

type rawLine struct {
	indent int
	text   string
	file   string
	line   int
}

func readContractLines(path string, needPrefix bool) ([]rawLine, error) {
	f, err := os.Open(path)
	if err != nil {
		return nil, err
	}
	defer f.Close()
	var out []rawLine
	sc := bufio.NewScanner(f)
	sc.Buffer(make([]byte, 1<<20), 1<<20)
	n := 0
	for sc.Scan() {
		n++
		l := sc.Text()
		t := strings.TrimLeft(l, " \t")
		if needPrefix {
			if !strings.HasPrefix(t, "//@") {
				continue
			}
			t = t[3:]
		} else {
			if strings.HasPrefix(t, "//@") {
				t = t[3:]
			} else {
				t = l
			}
			if strings.HasPrefix(strings.TrimSpace(t), "#") { // comment line in .spec
				continue
			}
		}
		// strip trailing // comments that are outside strings
		t = stripComment(t)
		trim := strings.TrimLeft(t, " \t")
		if trim == "" {
			continue
		}
		out = append(out, rawLine{indent: len(t) - len(trim), text: strings.TrimRight(trim, " \t"), file: path, line: n})
	}
	return out, sc.Err()
}

func stripComment(s string) string {
	inStr := false
	for i := 0; i+1 < len(s); i++ {
		c := s[i]
		if c == '"' && (i == 0 || s[i-1] != '\\') {
			inStr = !inStr
		}
		if !inStr && c == '/' && s[i+1] == '/' && (i == 0 || s[i-1] == ' ' || s[i-1] == '\t') {
			return s[:i]
		}
	}
	return s
}

func (cs *ContractSet) loadFile(path, pkg string, external bool) error {
	lines, err := readContractLines(path, !external)
	if err != nil {
		return err
	}
	cs.Files = append(cs.Files, path)
	var cur *Contract
	var curGhost *GhostFunc
	var curClause *Clause
	var curClauseIndent int
	var filePkg = pkg
	flush := func() error {
		if curClause != nil {
			if curClause.Kind != "replay" && curClause.Kind != "note" {
				e, err := parseCExpr(curClause.Text)
				if err != nil {
					return fmt.Errorf("%s:%d: %v", curClause.File, curClause.Line, err)
				}
				curClause.Expr = e
			}
			curClause = nil
		}
		return nil
	}
	for _, rl := range lines {
		word := rl.text
		rest := ""
		if i := strings.IndexAny(rl.text, " \t"); i >= 0 {
			word, rest = rl.text[:i], strings.TrimSpace(rl.text[i+1:])
		}
		// continuation of a multi-line clause?
		lemmaMeta := curClause != nil && (curClause.Kind == "lemma" || curClause.Kind == "axiom") && cur == nil && (word == "prop" || word == "ints")
		if curClause != nil && rl.indent > curClauseIndent && !lemmaMeta {
			curClause.Text += "\n" + rl.text
			continue
		}
		if err := flush(); err != nil {
			return err
		}
		switch word {
		case "package": // in .spec files: sets the package context for subsequent blocks
			filePkg = rest
			continue
		case "func":
			cur = &Contract{Key: rest, Pkg: filePkg, External: external, File: rl.file, Line: rl.line, Nullable: map[string]bool{}, Nonnil: map[string]bool{}, Unroll: map[int]int{}, UnrollAnchor: map[string]int{}}
			curGhost = nil
			k := normKey(rest)
			if isPatternKey(rest) {
				cs.Pattern = append(cs.Pattern, cur)
			} else {
				cs.ByKey[k] = append(cs.ByKey[k], cur)
			}
			continue
		case "ghost":
			g, err := parseGhostDecl(rest)
			if err != nil {
				return fmt.Errorf("%s:%d: %v", rl.file, rl.line, err)
			}
			g.Pkg = filePkg
			cs.Ghosts[filePkg+"|"+g.Name] = g
			if external {
				cs.Ghosts["|"+g.Name] = g
			}
			curGhost = g
			cur = nil
			continue
		case "lemma", "axiom":
			if word == "axiom" && cur != nil && rl.indent > 1 {
				// an axiom clause inside a func block
				cl := &Clause{Kind: "axiom", Text: rest, File: rl.file, Line: rl.line}
				cur.Axioms = append(cur.Axioms, cl)
				curClause, curClauseIndent = cl, rl.indent
				continue
			}
			name := rest
			body := ""
			if i := strings.IndexAny(rest, " \t"); i >= 0 {
				name, body = rest[:i], strings.TrimSpace(rest[i+1:])
			}
			cl := &Clause{Kind: word, Text: body, File: rl.file, Line: rl.line}
			lm := &Lemma{Name: name, Pkg: filePkg, Clause: cl, Axiom: word == "axiom"}
			cs.Lemmas = append(cs.Lemmas, lm)
			curClause, curClauseIndent = cl, rl.indent
			cur, curGhost = nil, nil
			continue
		}
		if curGhost != nil && word == "define" {
			cl := &Clause{Kind: "define", Text: rest, File: rl.file, Line: rl.line}
			curGhost.Define = cl
			curClause, curClauseIndent = cl, rl.indent
			continue
		}
		if len(cs.Lemmas) > 0 && cur == nil && curGhost == nil && (word == "prop" || word == "ints") {
			lm := cs.Lemmas[len(cs.Lemmas)-1]
			if word == "prop" {
				lm.Props = strings.Fields(rest)
			} else {
				lm.Ints = rest
			}
			continue
		}
		if cur == nil {
			return fmt.Errorf("%s:%d: clause %q outside a func block", rl.file, rl.line, word)
		}
		mkClause := func(kind, text string) *Clause {
			cl := &Clause{Kind: kind, Text: text, File: rl.file, Line: rl.line}
			// optional [label]
			if strings.HasPrefix(text, "[") {
				if j := strings.Index(text, "]"); j > 0 {
					cl.Label = text[1:j]
					cl.Text = strings.TrimSpace(text[j+1:])
					// `[C15 C02: name]`: the clause belongs to these properties only (the function may carry more)
					if k := strings.Index(cl.Label, ":"); k > 0 {
						only := strings.Fields(cl.Label[:k])
						ok := len(only) > 0
						for _, o := range only {
							if len(o) != 3 || o[0] != 'C' {
								ok = false
							}
						}
						if ok {
							cl.OnlyProps = only
							cl.Label = strings.TrimSpace(cl.Label[k+1:])
						}
					}
				}
			}
			curClause, curClauseIndent = cl, rl.indent
			return cl
		}
		switch word {
		case "prop":
			cur.Props = append(cur.Props, strings.Fields(rest)...)
		case "ints":
			cur.Ints = rest
		case "theory":
			cur.Notes = append(cur.Notes, "theory "+rest)
		case "pure":
			cur.Pure = true
			if rest == "heap" {
				cur.PureHeap = true
			}
			if rest == "opaque" {
				cur.Opaque = true
			}
		case "per-return":
			cur.PerReturn = true
		case "uses":
			cur.Uses = append(cur.Uses, strings.Fields(rest)...)
		case "trusted":
			cur.Trusted = true
		case "safety":
			cur.Safety = true
		case "inline":
			cur.Inline = true
		case "noreturn":
			cur.NoReturn = true
		case "benign":
			cur.Benign = true
		case "assume-benign":
			cur.AssumeBenign = true
			if os.Getenv("GOVC_AUDIT_BENIGN") != "" && !cur.Trusted {
				// audit mode: the assumed frame becomes a proof obligation of the function itself
				cur.Modifies = append(cur.Modifies, "nothing")
			}
		case "summary":
			cur.HO = rest
		case "modifies":
			cur.Modifies = append(cur.Modifies, splitComma(rest)...)
		case "nullable":
			for _, n := range splitComma(rest) {
				cur.Nullable[n] = true
			}
		case "nonnil":
			for _, n := range splitComma(rest) {
				cur.Nonnil[n] = true
			}
		case "fresh":
			cur.Fresh = append(cur.Fresh, splitComma(rest)...)
		case "note":
			cur.Notes = append(cur.Notes, rest)
		case "replay":
			cur.Replay = append(cur.Replay, rest)
		case "requires":
			cur.Requires = append(cur.Requires, mkClause("requires", rest))
		case "ensures":
			cur.Ensures = append(cur.Ensures, mkClause("ensures", rest))
		case "decreases":
			cur.Decreases = append(cur.Decreases, mkClause("decreases", rest))
		case "axiom":
			cur.Axioms = append(cur.Axioms, mkClause("axiom", rest))
		case "bounded": // bounded unroll N [loop K]
			f := strings.Fields(rest)
			if len(f) >= 2 && f[0] == "unroll" {
				n, _ := strconv.Atoi(f[1])
				k := 0
				if len(f) >= 4 && f[2] == "loop" {
					k, _ = strconv.Atoi(f[3])
				}
				cur.Unroll[k] = n
			}
		case "loop":
			f := strings.Fields(rest)
			if len(f) < 3 {
				return fmt.Errorf("%s:%d: bad loop clause", rl.file, rl.line)
			}
			k, anchor := 0, ""
			if strings.HasPrefix(f[0], "@") {
				anchor = f[0][1:]
			} else {
				var err error
				k, err = strconv.Atoi(f[0])
				if err != nil {
					return fmt.Errorf("%s:%d: bad loop ordinal", rl.file, rl.line)
				}
			}
			body := strings.TrimSpace(strings.TrimPrefix(strings.TrimSpace(strings.TrimPrefix(rest, f[0])), f[1]))
			switch f[1] {
			case "invariant":
				cl := mkClause("invariant", body)
				cl.Loop, cl.LoopAnchor = k, anchor
				cur.Invs = append(cur.Invs, cl)
			case "decreases":
				cl := mkClause("decreases", body)
				cl.Loop, cl.LoopAnchor = k, anchor
				cur.Decreases = append(cur.Decreases, cl)
			case "unroll":
				n, err := strconv.Atoi(f[2])
				if err != nil {
					return fmt.Errorf("%s:%d: bad unroll count", rl.file, rl.line)
				}
				if anchor != "" {
					cur.UnrollAnchor[anchor] = n
				} else {
					cur.Unroll[k] = n
				}
			default:
				return fmt.Errorf("%s:%d: unknown loop clause %q", rl.file, rl.line, f[1])
			}
		case "call": // call KEY #n requires E
			i := strings.Index(rest, "#")
			if i < 0 {
				return fmt.Errorf("%s:%d: sink clause without #ordinal", rl.file, rl.line)
			}
			callee := strings.TrimSpace(rest[:i])
			after := rest[i+1:]
			j := strings.IndexAny(after, " \t")
			if j < 0 {
				return fmt.Errorf("%s:%d: sink clause without requires", rl.file, rl.line)
			}
			ordText := after[:j]
			ord := 0
			optional := ordText == "?" // every site, possibly none: a restriction on what MAY be called, not stale when nothing is
			if ordText != "*" && !optional {
				ord, err = strconv.Atoi(ordText)
				if err != nil {
					return fmt.Errorf("%s:%d: bad ordinal", rl.file, rl.line)
				}
			}
			tail := strings.TrimSpace(after[j:])
			if !strings.HasPrefix(tail, "requires") {
				return fmt.Errorf("%s:%d: expected 'requires' in sink clause", rl.file, rl.line)
			}
			cl := mkClause("sink", strings.TrimSpace(strings.TrimPrefix(tail, "requires")))
			cl.Callee, cl.Ord = callee, ord
			cl.Optional = optional
			cur.Sinks = append(cur.Sinks, cl)
		case "cover": // cover return | cover call KEY #n
			cl := &Clause{Kind: "cover", Text: rest, File: rl.file, Line: rl.line}
			if strings.HasPrefix(rest, "call ") {
				r := strings.TrimPrefix(rest, "call ")
				i := strings.Index(r, "#")
				if i < 0 {
					return fmt.Errorf("%s:%d: cover call without #ordinal", rl.file, rl.line)
				}
				cl.Callee = strings.TrimSpace(r[:i])
				o := strings.TrimSpace(r[i+1:])
				if o != "*" {
					cl.Ord, _ = strconv.Atoi(o)
				}
			}
			cur.Covers = append(cur.Covers, cl)
		default:
			return fmt.Errorf("%s:%d: unknown clause %q", rl.file, rl.line, word)
		}
	}
	return flush()
}

func splitComma(s string) []string {
	var out []string
	for _, p := range strings.Split(s, ",") {
		p = strings.TrimSpace(p)
		if p != "" {
			out = append(out, p)
		}
	}
	return out
}

func isPatternKey(k string) bool {
	return strings.HasSuffix(k, ".*") || strings.HasSuffix(k, "/*")
}

func parseGhostDecl(rest string) (*GhostFunc, error) {
	// func NAME(a T, b U) R     |   var NAME T
	if strings.HasPrefix(rest, "var ") {
		f := strings.Fields(rest)
		if len(f) < 3 {
			return nil, fmt.Errorf("bad ghost var")
		}
		toks, err := lexContract(strings.Join(f[2:], " "))
		if err != nil {
			return nil, err
		}
		p := &cparser{toks: toks}
		var ty *CType
		func() {
			defer func() {
				if r := recover(); r != nil {
					err = fmt.Errorf("%v", r)
				}
			}()
			ty = p.typ()
		}()
		return &GhostFunc{Name: f[1], Result: ty}, err
	}
	if !strings.HasPrefix(rest, "func ") {
		return nil, fmt.Errorf("ghost: expected func or var")
	}
	rest = strings.TrimPrefix(rest, "func ")
	i := strings.Index(rest, "(")
	if i < 0 {
		return nil, fmt.Errorf("ghost func: missing (")
	}
	g := &GhostFunc{Name: strings.TrimSpace(rest[:i])}
	toks, err := lexContract(rest[i:])
	if err != nil {
		return nil, err
	}
	p := &cparser{toks: toks}
	func() {
		defer func() {
			if r := recover(); r != nil {
				err = fmt.Errorf("%v", r)
			}
		}()
		p.expectOp("(")
		for !p.isOp(")") {
			var names []string
			for {
				t := p.next()
				if t.kind != "id" {
					p.fail("expected parameter name")
				}
				names = append(names, t.text)
				if p.isOp(",") {
					p.pos++
					continue
				}
				break
			}
			ty := p.typ()
			for _, n := range names {
				g.Params = append(g.Params, CVar{n, ty})
			}
			if p.isOp(",") {
				p.pos++
			}
		}
		p.expectOp(")")
		g.Result = p.typ()
	}()
	return g, err
}

// normKey normalises a function key: whitespace removed.
func normKey(k string) string {
	return strings.ReplaceAll(strings.TrimSpace(k), " ", "")
}

func newContractSet() *ContractSet {
	return &ContractSet{ByKey: map[string][]*Contract{}, Ghosts: map[string]*GhostFunc{}}
}

// loadAll loads external specs and all repository contract files.
func loadContracts(repo, extDir string) (*ContractSet, error) {
	cs := newContractSet()
	ext, _ := filepath.Glob(filepath.Join(extDir, "*.spec"))
	for _, f := range ext {
		if err := cs.loadFile(f, "", true); err != nil {
			return nil, err
		}
	}
	err := filepath.Walk(repo, func(path string, info os.FileInfo, err error) error {
		if err != nil {
			return nil
		}
		if info.IsDir() && (info.Name() == ".git" || info.Name() == "node_modules") {
			return filepath.SkipDir
		}
		if !info.IsDir() && info.Name() == "zz_contracts_verif.go" {
			rel, _ := filepath.Rel(repo, filepath.Dir(path))
			pkg := "github.com/nuts-foundation/nuts-node"
			if rel != "." {
				pkg += "/" + filepath.ToSlash(rel)
			}
			if err := cs.loadFile(path, pkg, false); err != nil {
				return err
			}
		}
		return nil
	})
	return cs, err
}

// candidateKeys returns the keys under which a function named by its full key may be registered:
// the full form and forms with package paths shortened to their last 1..n elements.
// full key examples: "github.com/x/y/dag.ParseTransaction", "(*github.com/x/y/dag.state).Add",
// "(github.com/x/y/dag.Transaction).Ref".
func candidateKeys(full string, inPkg string) []string {
	keys := []string{full}
	// locate the package path inside the key
	start := 0
	if strings.HasPrefix(full, "(*") {
		start = 2
	} else if strings.HasPrefix(full, "(") {
		start = 1
	}
	// package path ends at the last '.' before the type/func name: find the last '/' then next '.'
	rest := full[start:]
	slash := strings.LastIndex(rest, "/")
	// careful with generics instantiation [..] containing slashes: only look before '['
	if br := strings.Index(rest, "["); br >= 0 {
		slash = strings.LastIndex(rest[:br], "/")
	}
	dot := strings.Index(rest[slash+1:], ".")
	if dot < 0 {
		return keys
	}
	pkgPath := rest[:slash+1+dot]
	tail := rest[slash+1+dot:] // ".Name..." including the dot
	parts := strings.Split(pkgPath, "/")
	for n := 1; n < len(parts); n++ {
		short := strings.Join(parts[len(parts)-n:], "/")
		keys = append(keys, full[:start]+short+tail)
	}
	if pkgPath == inPkg || inPkg == "" {
		// unqualified form
		keys = append(keys, full[:start]+tail[1:])
	}
	return keys
}
