package main

// Debugging aid: split a failing clause into its conjuncts and report which of them fail.

import (
	"fmt"
	"strings"
	"time"
)

type clausePart struct {
	Text string
	Goal Term
}

func printCExpr(e CExpr) string {
	switch x := e.(type) {
	case *CIdent:
		return x.Name
	case *CInt:
		return x.Text
	case *CStrL:
		return fmt.Sprintf("%q", x.Val)
	case *CBoolL:
		return fmt.Sprint(x.Val)
	case *CNil:
		return "nil"
	case *CBin:
		return "(" + printCExpr(x.X) + " " + x.Op + " " + printCExpr(x.Y) + ")"
	case *CUn:
		return x.Op + printCExpr(x.X)
	case *CSel:
		return printCExpr(x.X) + "." + x.Sel
	case *CIdx:
		return printCExpr(x.X) + "[" + printCExpr(x.I) + "]"
	case *CCall:
		var as []string
		for _, a := range x.Args {
			as = append(as, printCExpr(a))
		}
		return printCExpr(x.Fun) + "(" + strings.Join(as, ", ") + ")"
	case *CQuant:
		q := "exists"
		if x.Forall {
			q = "forall"
		}
		var vs []string
		for _, v := range x.Vars {
			vs = append(vs, v.Name+" "+v.T.String())
		}
		return q + " " + strings.Join(vs, ", ") + " :: " + printCExpr(x.Body)
	case *CEvent:
		if x.Callee == "" {
			return fmt.Sprintf("%s(%d)", x.Kind, x.Index)
		}
		if x.Index >= 0 {
			return fmt.Sprintf("%s(call %s #%d, %d)", x.Kind, x.Callee, x.Ord, x.Index)
		}
		return fmt.Sprintf("%s(call %s #%d)", x.Kind, x.Callee, x.Ord)
	case *CCond:
		return "(" + printCExpr(x.C) + " ? " + printCExpr(x.A) + " : " + printCExpr(x.B) + ")"
	case *CAssert:
		return printCExpr(x.X) + ".(" + x.T.String() + ")"
	case *CTypeExpr:
		return x.T.String()
	}
	return "?"
}

// clauseParts evaluates the conjuncts of a clause separately (under the antecedent of a top-level
// implication). Errors are ignored: this is only a diagnostic.
func (ec *evalCtx) clauseParts(e CExpr) []clausePart {
	var ante Term = tTrue
	body := e
	if bin, ok := e.(*CBin); ok && bin.Op == "==>" {
		if a, err := ec.evalBool(bin.X); err == nil {
			ante = a
			body = bin.Y
		}
	}
	var conj []CExpr
	var split func(x CExpr)
	split = func(x CExpr) {
		if b, ok := x.(*CBin); ok && b.Op == "&&" {
			split(b.X)
			split(b.Y)
			return
		}
		conj = append(conj, x)
	}
	split(body)
	if len(conj) < 2 {
		return nil
	}
	var out []clausePart
	for _, cj := range conj {
		t, err := ec.evalClause(cj)
		if err != nil {
			continue
		}
		out = append(out, clausePart{printCExpr(cj), implies(ante, t)})
	}
	return out
}

// explain re-solves each conjunct of a failed obligation.
func explain(sc *Script, o *Obligation) []string {
	var out []string
	for _, p := range o.Parts {
		po := *o
		po.Goal = p.Goal
		q := sc.query(&po, false)
		v := solve(q, false, solveOpts{timeout: 5 * time.Second})
		if v.Status != "unsat" {
			out = append(out, fmt.Sprintf("conjunct fails (%s): %s", v.Status, p.Text))
		}
	}
	return out
}
