package main

// Replay of failed obligations against the real code: a Go test is injected in-package with
// `go test -overlay` (nothing is written under /repo). Two sources of replay tests:
//  * recipes (/verif/findings/recipes.json): hand-written demonstrations keyed by obligation name,
//    for findings and for guard obligations whose counter-model is a path, not an input;
//  * generated tests for functions whose parameters are plain data (integers, booleans, strings,
//    byte slices/arrays): arguments are taken literally from the solver's model.

import (
	"encoding/json"
	"fmt"
	"os"
	"os/exec"
	"path/filepath"
	"strings"
	"time"
)

type recipe struct {
	Pkg  string `json:"pkg"`  // package pattern relative to the repository, e.g. ./http
	Test string `json:"test"` // test function name
	File string `json:"file"` // test source, relative to /verif
	As   string `json:"as"`   // file name to inject (default zz_verif_replay_test.go)
}

func loadRecipes() map[string]recipe {
	out := map[string]recipe{}
	data, err := os.ReadFile(filepath.Join(verifDir, "findings", "recipes.json"))
	if err != nil {
		return out
	}
	_ = json.Unmarshal(data, &out)
	return out
}

// runOverlayTest runs one injected in-package test; returns (failed, output).
func runOverlayTest(pkg, testName, srcFile, as string) (bool, string) {
	if as == "" {
		as = "zz_verif_replay_test.go"
	}
	dir, err := os.MkdirTemp("", "govc-replay-")
	if err != nil {
		return false, err.Error()
	}
	defer os.RemoveAll(dir)
	target := filepath.Join(repoDir, strings.TrimPrefix(pkg, "./"), as)
	ov := map[string]map[string]string{"Replace": {target: srcFile}}
	data, _ := json.Marshal(ov)
	ovPath := filepath.Join(dir, "overlay.json")
	os.WriteFile(ovPath, data, 0o644)
	cmd := exec.Command("go", "test", "-overlay", ovPath, "-vet=off", "-count=1", "-timeout", "120s", "-run", "^"+testName+"$", pkg)
	cmd.Dir = repoDir
	cmd.Env = append(os.Environ(), "GOFLAGS=-mod=mod", "GOPROXY=off", "GOSUMDB=off", "GOTOOLCHAIN=local")
	done := make(chan struct{})
	var out []byte
	go func() {
		out, err = cmd.CombinedOutput()
		close(done)
	}()
	select {
	case <-done:
	case <-time.After(300 * time.Second):
		if cmd.Process != nil {
			cmd.Process.Kill()
		}
		return false, "replay timed out"
	}
	s := string(out)
	failed := err != nil && (strings.Contains(s, "--- FAIL") || strings.Contains(s, "panic:"))
	return failed, s
}

func replayObligation(prop string, r *oblResult, path string) bool {
	recipes := loadRecipes()
	if rc, ok := recipes[r.O.Name]; ok {
		failed, out := runOverlayTest(rc.Pkg, rc.Test, filepath.Join(verifDir, rc.File), rc.As)
		f, _ := os.OpenFile(path, os.O_APPEND|os.O_WRONLY, 0o644)
		if f != nil {
			fmt.Fprintf(f, "\n--- replay on the real code: go test -overlay (%s in %s, source %s) ---\nreproduced: %v\n%s\n", rc.Test, rc.Pkg, rc.File, failed, out)
			f.Close()
		}
		return failed
	}
	return replayGenerated(prop, r, path)
}

func runReplayTest(goFile string) (bool, string) {
	return false, ""
}

// replayGenerated: see replaygen2.go (model-driven replay for plain-data functions).
