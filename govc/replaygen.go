package main

// Replay of counter-models against the real code (go test -overlay, in-package test).

func replayObligation(prop string, r *oblResult, path string) bool {
	return false
}

func runReplayTest(goFile string) (bool, string) {
	return false, ""
}
