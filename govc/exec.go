package main

// Symbolic execution of go/ssa (NaiveForm) function bodies into SMT definitions, assumptions and
// obligations. Acyclic after cutting loops at their heads (invariants); callees are replaced by
// their contracts, or inlined when they are closures under a higher-order summary.

import (
	"math"
	"fmt"
	"go/constant"
	"go/token"
	"go/types"
	"sort"
	"strings"

	"golang.org/x/tools/go/ssa"
)

type FuncCtx struct {
	v           *Verifier
	sc          *Script
	top         *ssa.Function
	topCon      *Contract
	keys        map[string]keyInfo
	initMemo    map[string]Term
	baseN       int
	structs     map[string]*structInfo
	structNames map[string]*structInfo
	tags        map[string]int
	tagTypes    map[int]types.Type
	assumptions map[string]bool
	trustedUsed map[string]bool
	unmodelled  map[string]bool
	allocs      []Term
	props       []string
	oblCount    map[string]int
	safety      bool
	stale       []string
	pureDecl    map[string]bool
	inlineDepth int
	funcName    string
	guard       Term
	uncontracted    map[string]bool
	autoInlined     map[string]bool
	calleeContracts map[string]bool
	pureSig     map[string]string
	frameN      int
	qn          int
	pureDepth   int
	wfDepth     int
	pendingParts []clausePart
	pendingGuard Term
	constGlobals map[string]Term
	inLemma     bool
	seenRefs    map[string][]Term
	seenRefSet  map[string]bool
	idxTerms    []Term
	idxSeen     map[string]bool
	quants      []*quantAssume
	privateRefs []privRef
	witTuples   [][]Term
}

type Val struct {
	T   []Term
	L   *LVal
	Clo *Closure
}

type Closure struct {
	fn    *ssa.Function
	binds []*Val
}

type rootKind int

const (
	rkLocal rootKind = iota
	rkGlobal
	rkHeap
	rkElems
)

type pathStep struct {
	field  int
	idx    *Term
	inT    types.Type // the type being indexed / selected from
	isElem bool       // idx step on an element heap: inT is the element type itself
}

type LVal struct {
	kind  rootKind
	key   string     // local / global: state key
	ref   Term       // heap / elems root
	rootT types.Type // type of the root storage (for elems: the element type)
	path  []pathStep
	typ   types.Type // type of the addressed location
}

type Event struct {
	did   Term
	args  []TV
	rets  []TV
	block *ssa.BasicBlock
	key   string
	ord   int
}

type deferSite struct {
	instr *ssa.Defer
	key   string // state key of the "registered" flag
	args  []*Val
	fnVal *Val
}

type retInfo struct {
	reach Term
	vals  []Term
	st    *State
	pos   token.Pos
}

type siteInfo struct {
	key string
	ord int
}

type Frame struct {
	c        *FuncCtx
	fn       *ssa.Function
	con      *Contract
	parent   *Frame
	env      map[ssa.Value]*Val
	events   map[string]*Event
	sites    map[ssa.Instruction]siteInfo
	// per havocLoop: fields of local struct cells the loop stores to (field-granular havoc)
	loopFields map[string]map[int]bool
	loopWhole  map[string]bool
	loopFieldT map[string]types.Type
	except     []Term
	exceptDone bool
	entry    *State
	params   map[string]TV // entry values of parameters, by name
	heapCell map[*ssa.Alloc]bool
	defers   []*deferSite
	depth    int
	loops    *loopInfo
	curBlock *ssa.BasicBlock
	reach    Term
	inEdges  map[*ssa.BasicBlock][]predEdge
	bind     map[string]TV
	rets     []retInfo
	isTop    bool
	hoEvents map[string]*Event // closure-invocation events by parameter name (callee-contract context)
	loopRuns  map[*loop]*loopRun
	cellTypes map[string]types.Type
	addrCache map[string]Term // materialised address per local cell (+ static field path)
	anchorOrd map[string]int
	allocIDs  map[*ssa.Alloc]int
	cellClo   map[string]*Closure
	children  []*Frame
	pendingHO map[string]*Event
	frameID   int
	deferKeys map[*ssa.Defer]string
	pseudoOrd map[ssa.Instruction]int
	doneBlocks  map[*ssa.BasicBlock]bool
	innerDone   map[*ssa.BasicBlock]bool
	unrolling   *loop
	pendingBack []predEdge
	escapeAt    map[ssa.Instruction][]ssa.Value
	pendingOuts []copyBack
	kindOrd     map[string]map[ssa.Instruction]int
}

type predEdge struct {
	from *ssa.BasicBlock
	cond Term
	st   *State
}

func (c *FuncCtx) assumeNote(s string) { c.assumptions[s] = true }

// ---------------------------------------------------------------------------------------------
// loop structure

type loopInfo struct {
	heads    map[*ssa.BasicBlock]*loop
	backEdge map[[2]int]bool // (from,to) block indices
	order    []*ssa.BasicBlock
}

type loop struct {
	head    *ssa.BasicBlock
	body    map[*ssa.BasicBlock]bool
	ordinal int
	latches []*ssa.BasicBlock
}

func analyseLoops(fn *ssa.Function) (*loopInfo, error) {
	li := &loopInfo{heads: map[*ssa.BasicBlock]*loop{}, backEdge: map[[2]int]bool{}}
	if len(fn.Blocks) == 0 {
		return li, nil
	}
	// reachable blocks and DFS to find back edges (edge to a block on the DFS stack)
	state := map[*ssa.BasicBlock]int{}
	var post []*ssa.BasicBlock
	var dfs func(b *ssa.BasicBlock)
	dfs = func(b *ssa.BasicBlock) {
		state[b] = 1
		for _, s := range b.Succs {
			switch state[s] {
			case 0:
				dfs(s)
			case 1:
				li.backEdge[[2]int{b.Index, s.Index}] = true
			}
		}
		state[b] = 2
		post = append(post, b)
	}
	dfs(fn.Blocks[0])
	for i := len(post) - 1; i >= 0; i-- {
		li.order = append(li.order, post[i])
	}
	for e := range li.backEdge {
		from, to := fn.Blocks[e[0]], fn.Blocks[e[1]]
		if !to.Dominates(from) {
			return nil, fmt.Errorf("irreducible control flow (back edge %d->%d)", e[0], e[1])
		}
		l := li.heads[to]
		if l == nil {
			l = &loop{head: to, body: map[*ssa.BasicBlock]bool{to: true}}
			li.heads[to] = l
		}
		l.latches = append(l.latches, from)
		// natural loop: blocks that reach `from` without passing through head
		var stack []*ssa.BasicBlock
		if !l.body[from] {
			l.body[from] = true
			stack = append(stack, from)
		}
		for len(stack) > 0 {
			b := stack[len(stack)-1]
			stack = stack[:len(stack)-1]
			for _, p := range b.Preds {
				if !l.body[p] && state[p] != 0 {
					l.body[p] = true
					stack = append(stack, p)
				}
			}
		}
	}
	var hs []*ssa.BasicBlock
	for h := range li.heads {
		hs = append(hs, h)
	}
	sort.Slice(hs, func(i, j int) bool { return hs[i].Index < hs[j].Index })
	for i, h := range hs {
		li.heads[h].ordinal = i + 1
	}
	return li, nil
}

// ---------------------------------------------------------------------------------------------
// cell classification

func classifyCells(fn *ssa.Function) map[*ssa.Alloc]bool {
	heap := map[*ssa.Alloc]bool{}
	for _, b := range fn.Blocks {
		for _, in := range b.Instrs {
			a, ok := in.(*ssa.Alloc)
			if !ok {
				continue
			}
			if addrEscapes(a, map[ssa.Value]bool{}) {
				heap[a] = true
			}
		}
	}
	return heap
}

func addrEscapes(v ssa.Value, seen map[ssa.Value]bool) bool {
	if seen[v] {
		return false
	}
	seen[v] = true
	refs := v.Referrers()
	if refs == nil {
		return true
	}
	for _, r := range *refs {
		switch u := r.(type) {
		case *ssa.UnOp:
			if u.Op == token.MUL && u.X == v {
				continue
			}
			return true
		case *ssa.Store:
			if u.Addr == v && u.Val != v {
				continue
			}
			return true
		case *ssa.FieldAddr:
			if addrEscapes(u, seen) {
				return true
			}
		case *ssa.IndexAddr:
			if u.X == v {
				if addrEscapes(u, seen) {
					return true
				}
				continue
			}
			return true
		case *ssa.DebugRef:
			continue
		case *ssa.Call:
			// passed by address to a call: copy-in/copy-out (callee assumed not to retain it)
			if u.Call.Value == v && !u.Call.IsInvoke() {
				return true // calling through a pointer to func? not an address use we model
			}
			continue
		default:
			return true
		}
	}
	return false
}

// ---------------------------------------------------------------------------------------------
// frames

func (c *FuncCtx) newFrame(fn *ssa.Function, con *Contract, parent *Frame) (*Frame, error) {
	li, err := analyseLoops(fn)
	if err != nil {
		return nil, err
	}
	fr := &Frame{c: c, fn: fn, con: con, parent: parent, env: map[ssa.Value]*Val{}, events: map[string]*Event{},
		sites: map[ssa.Instruction]siteInfo{}, params: map[string]TV{}, heapCell: classifyCells(fn), loops: li,
		inEdges: map[*ssa.BasicBlock][]predEdge{}, bind: map[string]TV{}, escapeAt: escapesAt(fn)}
	if parent != nil {
		fr.depth = parent.depth + 1
	}
	// call-site ordinals in source order
	type siteRec struct {
		in  ssa.Instruction
		key string
		pos token.Pos
		bi  int
		ii  int
	}
	var recs []siteRec
	for _, b := range fn.Blocks {
		for ii, in := range b.Instrs {
			ci, ok := in.(ssa.CallInstruction)
			if !ok {
				continue
			}
			key := c.v.calleeKey(ci.Common())
			if key == "" {
				continue
			}
			recs = append(recs, siteRec{in, key, in.Pos(), b.Index, ii})
		}
	}
	sort.SliceStable(recs, func(i, j int) bool {
		if recs[i].pos != recs[j].pos && recs[i].pos != token.NoPos && recs[j].pos != token.NoPos {
			return recs[i].pos < recs[j].pos
		}
		if recs[i].bi != recs[j].bi {
			return recs[i].bi < recs[j].bi
		}
		return recs[i].ii < recs[j].ii
	})
	count := map[string]int{}
	for _, r := range recs {
		count[r.key]++
		fr.sites[r.in] = siteInfo{r.key, count[r.key]}
	}
	return fr, nil
}

func (fr *Frame) setVal(v ssa.Value, t Term) { fr.env[v] = &Val{T: []Term{t}} }

// val returns the symbolic value of an SSA value.
func (fr *Frame) val(v ssa.Value, st *State) *Val {
	c := fr.c
	switch x := v.(type) {
	case *ssa.Const:
		return &Val{T: []Term{c.constTerm(x)}}
	case *ssa.Global:
		return &Val{L: c.globalLVal(x)}
	case *ssa.Function:
		return &Val{T: []Term{c.fnConst(x)}, Clo: &Closure{fn: x}}
	case *ssa.Builtin:
		return &Val{}
	}
	if r, ok := fr.env[v]; ok {
		return r
	}
	// value defined in a block that was not executed (unreachable) or unsupported: fresh
	c.unmodelled[fmt.Sprintf("use of undefined SSA value %s (%T) in %s", v.Name(), v, fr.fn.Name())] = true
	r := &Val{T: []Term{c.freshOfType("undef_"+v.Name(), v.Type())}}
	fr.env[v] = r
	return r
}

// fpLit is the binary64 literal with exactly the bits of f.
func fpLit(f float64) Term {
	bits := math.Float64bits(f)
	return Term{fmt.Sprintf("(fp #b%01b #b%011b #b%052b)", bits>>63, (bits>>52)&0x7ff, bits&((1<<52)-1)), SFloat}
}

// isFloat64 reports whether t is (a defined type over) float64 - the only float kind modelled exactly.
func isFloat64(t types.Type) bool {
	b, ok := under(t).(*types.Basic)
	return ok && (b.Kind() == types.Float64 || b.Kind() == types.UntypedFloat)
}

func (c *FuncCtx) fnConst(fn *ssa.Function) Term {
	name := "fn_" + sanitize(fn.String())
	c.sc.declFun(name, nil, SFn)
	if !c.pureDecl["fnneq:"+name] {
		c.pureDecl["fnneq:"+name] = true
		c.sc.assume(not(eq(Term{name, SFn}, Term{"nil_fn", SFn})))
	}
	return Term{name, SFn}
}

// term returns the single SMT term of v (materialising static addresses when necessary).
func (fr *Frame) term(v ssa.Value, st *State) Term {
	r := fr.val(v, st)
	if len(r.T) == 1 {
		return r.T[0]
	}
	if r.L != nil {
		return fr.materialise(r.L, st)
	}
	if len(r.T) == 0 {
		return fr.c.freshOfType("noval", v.Type())
	}
	panic(fmt.Sprintf("tuple value %s used as a single term", v.Name()))
}

// materialise turns a static address into a Ref term (copy-in of the current content).
func (fr *Frame) materialise(l *LVal, st *State) Term {
	c := fr.c
	if (l.kind == rkHeap || l.kind == rkElems) && len(l.path) == 0 {
		return l.ref
	}
	// a temporary object standing for the addressed location; one address per local cell and static
	// field path, so that the same variable passed to two calls is the same pointer
	var p Term
	ck := ""
	if l.kind == rkLocal {
		ck = l.key
		for _, s := range l.path {
			if s.idx != nil {
				ck = ""
				break
			}
			ck += fmt.Sprintf("/%d", s.field)
		}
	}
	if q, ok := fr.addrCache[ck]; ok && ck != "" {
		p = q
	} else {
		p = c.newRef("addr")
		if ck != "" {
			if fr.addrCache == nil {
				fr.addrCache = map[string]Term{}
			}
			fr.addrCache[ck] = p
		}
	}
	// copy-in
	cur := fr.read(l, st)
	if arr, ok := under(l.typ).(*types.Array); ok {
		k := c.regElem(c.sortOf(arr.Elem()))
		st.set(k, sto(c.get(st, k), p, cur))
	} else {
		k := c.regHeap(c.sortOf(l.typ))
		st.set(k, sto(c.get(st, k), p, cur))
	}
	return p
}

// copyOut reads the content behind a materialised pointer back into the location.
func (fr *Frame) copyOut(l *LVal, p Term, st *State) {
	c := fr.c
	var v Term
	if arr, ok := under(l.typ).(*types.Array); ok {
		k := c.regElem(c.sortOf(arr.Elem()))
		v = sel(c.get(st, k), p, arraySort(c.sc.idxSort(), c.sortOf(arr.Elem())))
	} else {
		s := c.sortOf(l.typ)
		k := c.regHeap(s)
		v = sel(c.get(st, k), p, s)
	}
	fr.write(l, st, c.sc.define("cpout", v))
}

func (c *FuncCtx) globalLVal(g *ssa.Global) *LVal {
	key := "G:" + g.Pkg.Pkg.Path() + "." + g.Name()
	elem := g.Type().(*types.Pointer).Elem()
	constant := !c.v.globalAssigned[g]
	_, known := c.keys[key]
	c.registerKey(key, c.sortOf(elem), constant)
	if _, isFn := under(elem).(*types.Signature); !known && constant && c.v.globalInitNonNil(g.Pkg.Pkg.Path(), g.Name()) && (isFn || !c.v.globalInitIsRef(g.Pkg.Pkg.Path(), g.Name())) {
		// initialised with a non-nil value and never assigned again
		init := c.initVal(key, c.sortOf(elem), &Base{id: 0})
		c.constGlobals[key] = init
		switch under(elem).(type) {
		case *types.Interface:
			c.sc.assume(not(eq(ifTag(init), Term{"0", SInt})))
		case *types.Pointer, *types.Map:
			c.sc.assume(not(eq(init, Term{"nil_ref", SRef})))
		case *types.Signature:
			c.sc.assume(not(eq(init, Term{"nil_fn", SFn})))
		}
		c.assumeNote("package-level variables initialised with errors.New/fmt.Errorf/a literal and never assigned again are non-nil")
	}
	return &LVal{kind: rkGlobal, key: key, rootT: elem, typ: elem}
}

func (fr *Frame) addrOf(v ssa.Value, st *State) *LVal {
	r := fr.val(v, st)
	if r.L != nil {
		return r.L
	}
	pt, ok := under(v.Type()).(*types.Pointer)
	if !ok {
		panic("addrOf on non-pointer " + v.Type().String())
	}
	return fr.c.ptrLVal(r.T[0], pt.Elem())
}

func (c *FuncCtx) ptrLVal(p Term, elem types.Type) *LVal {
	if arr, ok := under(elem).(*types.Array); ok {
		return &LVal{kind: rkElems, ref: p, rootT: arr.Elem(), typ: elem}
	}
	return &LVal{kind: rkHeap, ref: p, rootT: elem, typ: elem}
}

func (fr *Frame) rootVal(l *LVal, st *State) Term {
	c := fr.c
	switch l.kind {
	case rkLocal, rkGlobal:
		return c.get(st, l.key)
	case rkHeap:
		s := c.sortOf(l.rootT)
		return sel(c.get(st, c.regHeap(s)), l.ref, s)
	case rkElems:
		s := c.sortOf(l.rootT)
		return sel(c.get(st, c.regElem(s)), l.ref, arraySort(c.sc.idxSort(), s))
	}
	panic("bad root")
}

func (fr *Frame) setRoot(l *LVal, st *State, v Term) {
	c := fr.c
	switch l.kind {
	case rkLocal, rkGlobal:
		st.set(l.key, v)
	case rkHeap:
		k := c.regHeap(c.sortOf(l.rootT))
		st.set(k, c.sc.define("heap", sto(c.get(st, k), l.ref, v)))
		c.heapWritten(st)
	case rkElems:
		k := c.regElem(c.sortOf(l.rootT))
		st.set(k, c.sc.define("elems", sto(c.get(st, k), l.ref, v)))
		c.heapWritten(st)
	}
}

func (fr *Frame) read(l *LVal, st *State) Term {
	c := fr.c
	v := fr.rootVal(l, st)
	for _, s := range l.path {
		if s.idx != nil {
			var es Sort
			if arr, ok := under(s.inT).(*types.Array); ok && !s.isElem {
				es = c.sortOf(arr.Elem())
			} else {
				es = c.sortOf(s.inT) // elems root: inT is the element type
			}
			v = sel(v, *s.idx, es)
		} else {
			v = c.fieldSel(v, s.inT, s.field)
		}
	}
	return v
}

func (fr *Frame) write(l *LVal, st *State, nv Term) {
	root := fr.rootVal(l, st)
	if len(l.path) > 0 {
		root = fr.c.sc.define("root", root)
		nv = fr.c.sc.define("nv", nv)
	}
	fr.setRoot(l, st, fr.c.sc.define("upd", fr.upd(root, l.path, nv)))
}

func (fr *Frame) upd(cur Term, path []pathStep, nv Term) Term {
	c := fr.c
	if len(path) == 0 {
		return nv
	}
	s := path[0]
	if s.idx != nil {
		var es Sort
		if arr, ok := under(s.inT).(*types.Array); ok && !s.isElem {
			es = c.sortOf(arr.Elem())
		} else {
			es = c.sortOf(s.inT)
		}
		sub := sel(cur, *s.idx, es)
		if len(path) > 1 {
			sub = c.sc.define("sub", sub)
		}
		inner := fr.upd(sub, path[1:], nv)
		return sto(cur, *s.idx, inner)
	}
	sub := c.fieldSel(cur, s.inT, s.field)
	if len(path) > 1 {
		sub = c.sc.define("sub", sub)
	}
	inner := fr.upd(sub, path[1:], nv)
	if len(path) > 1 {
		inner = c.sc.define("inner", inner)
	}
	return c.fieldUpd(cur, s.inT, s.field, inner)
}

func extend(l *LVal, step pathStep, typ types.Type) *LVal {
	n := *l
	n.path = append(append([]pathStep{}, l.path...), step)
	n.typ = typ
	return &n
}

// ---------------------------------------------------------------------------------------------
// constants, fresh values, well-formedness

func (c *FuncCtx) constTerm(k *ssa.Const) Term {
	t := k.Type()
	if k.Value == nil {
		return c.zero(t)
	}
	switch u := under(t).(type) {
	case *types.Basic:
		switch {
		case u.Info()&types.IsBoolean != 0:
			if constant.BoolVal(k.Value) {
				return tTrue
			}
			return tFalse
		case u.Info()&types.IsInteger != 0:
			if u.Info()&types.IsUnsigned != 0 {
				n, _ := constant.Uint64Val(constant.ToInt(k.Value))
				return c.sc.uintLit(n, intWidth(u))
			}
			n, _ := constant.Int64Val(constant.ToInt(k.Value))
			return c.sc.intLit(n, intWidth(u))
		case u.Info()&types.IsString != 0:
			return c.sc.strConst(constant.StringVal(k.Value))
		case u.Info()&types.IsFloat != 0, u.Info()&types.IsComplex != 0:
			if c.sc.ieeeFloats && u.Info()&types.IsFloat != 0 {
				f, _ := constant.Float64Val(constant.ToFloat(k.Value))
				return fpLit(f)
			}
			name := "flt_" + sanitize(k.Value.ExactString())
			c.sc.declFun(name, nil, SFloat)
			return Term{name, SFloat}
		}
	}
	return c.sc.fresh("const", c.sortOf(t))
}

const addrSpaceBits = 48

// freshOfType creates a fresh value with the well-formedness facts Go guarantees for the type.
func (c *FuncCtx) freshOfType(label string, t types.Type) Term {
	v := c.sc.fresh(label, c.sortOf(t))
	c.wellFormed(v, t)
	return v
}

func (c *FuncCtx) wellFormed(v Term, t types.Type) {
	if _, ok := under(t).(*types.Struct); ok {
		if w := c.wfTerm(v, t); w.S != "true" {
			c.assumeG(w)
		}
		return
	}
	switch u := under(t).(type) {
	case *types.Slice:
		c.assumeG(c.sliceWF(v))
	case *types.Basic:
		if u.Info()&types.IsString != 0 {
			c.assumeG(c.strWF(v))
		}
		if c.sc.mathInts && u.Info()&types.IsInteger != 0 {
			c.assumeG(c.intRange(v, t))
		}
	case *types.Interface:
		c.assumeG(mk(SBool, ">=", ifTag(v), Term{"0", SInt}))
	}
}

func (c *FuncCtx) intRange(v Term, t types.Type) Term {
	w := widthOf(t)
	if isUnsigned(t) {
		hi := "18446744073709551615"
		if w < 64 {
			hi = fmt.Sprintf("%d", (uint64(1)<<uint(w))-1)
		}
		return and(mk(SBool, "<=", Term{"0", SInt}, v), mk(SBool, "<=", v, Term{hi, SInt}))
	}
	lo, hi := "(- 9223372036854775808)", "9223372036854775807"
	if w < 64 {
		lo = fmt.Sprintf("(- %d)", uint64(1)<<uint(w-1))
		hi = fmt.Sprintf("%d", (uint64(1)<<uint(w-1))-1)
	}
	return and(mk(SBool, "<=", Term{lo, SInt}, v), mk(SBool, "<=", v, Term{hi, SInt}))
}

func (c *FuncCtx) le(a, b Term) Term {
	if c.sc.mathInts {
		return mk(SBool, "<=", a, b)
	}
	return mk(SBool, "bvsle", a, b)
}
func (c *FuncCtx) lt(a, b Term) Term {
	if c.sc.mathInts {
		return mk(SBool, "<", a, b)
	}
	return mk(SBool, "bvslt", a, b)
}
func (c *FuncCtx) add(a, b Term) Term {
	if c.sc.mathInts {
		return mk(SInt, "+", a, b)
	}
	return mk(a.Sort, "bvadd", a, b)
}
func (c *FuncCtx) sub(a, b Term) Term {
	if c.sc.mathInts {
		return mk(SInt, "-", a, b)
	}
	return mk(a.Sort, "bvsub", a, b)
}

func (c *FuncCtx) maxLen() Term { return c.sc.idxLit(int64(1) << addrSpaceBits) }

func (c *FuncCtx) sliceWF(s Term) Term {
	z := c.sc.idxLit(0)
	return and(c.le(z, c.slOff(s)), c.le(z, c.slLen(s)), c.le(c.slLen(s), c.slCap(s)), c.le(c.slCap(s), c.maxLen()), c.le(c.slOff(s), c.maxLen()),
		implies(eq(slPtr(s), Term{"nil_ref", SRef}), eq(c.slCap(s), z)))
}

func (c *FuncCtx) strlen(s Term) Term { return mk(c.sc.idxSort(), "strlen", s) }

func (c *FuncCtx) strWF(s Term) Term {
	z := c.sc.idxLit(0)
	n := c.strlen(s)
	return and(c.le(z, n), c.le(n, c.maxLen()), mk(SBool, "=", eq(n, z), eq(s, c.sc.strConst(""))))
}

// newRef allocates a fresh non-nil reference distinct from all earlier allocations of this query.
// noteRef remembers a reference obtained from the environment (parameter, load, call result) as a
// pointer into heap array `key`; later allocations into that array are distinct from it.
func (c *FuncCtx) noteRef(key string, t Term) {
	if c.seenRefs == nil {
		c.seenRefs = map[string][]Term{}
		c.seenRefSet = map[string]bool{}
	}
	id := key + "|" + t.S
	if c.seenRefSet[id] || len(c.seenRefs[key]) > 400 {
		return
	}
	c.seenRefSet[id] = true
	c.seenRefs[key] = append(c.seenRefs[key], t)
}

// noteValueRefs records the references directly contained in a value of type t.
func (c *FuncCtx) noteValueRefs(v Term, t types.Type) {
	switch u := under(t).(type) {
	case *types.Slice:
		c.noteRef(elemKey(c.sortOf(u.Elem())), slPtr(v))
	case *types.Pointer:
		if arr, ok := under(u.Elem()).(*types.Array); ok {
			c.noteRef(elemKey(c.sortOf(arr.Elem())), v)
		} else {
			c.noteRef(heapKey(c.sortOf(u.Elem())), v)
		}
	case *types.Struct:
		if c.wfDepth > 2 {
			return
		}
		c.wfDepth++
		for i := 0; i < u.NumFields(); i++ {
			switch under(u.Field(i).Type()).(type) {
			case *types.Slice, *types.Pointer:
				c.noteValueRefs(c.fieldSel(v, t, i), u.Field(i).Type())
			}
		}
		c.wfDepth--
	}
}

// newRefIn allocates a fresh object in heap array `key`: distinct from every reference into that
// array obtained before.
func (c *FuncCtx) newRefIn(label, key string) Term {
	r := c.newRef(label)
	var parts []Term
	for _, t := range c.seenRefs[key] {
		parts = append(parts, not(eq(r, t)))
	}
	if len(parts) > 0 {
		c.sc.assume(and(parts...))
	}
	return r
}

func (c *FuncCtx) newRef(label string) Term {
	r := c.sc.fresh(label, SRef)
	c.sc.declFun("alloc_id", []Sort{SRef}, SInt)
	// distinctness via an injective numbering: alloc_id(r) = k (k>0); pre-existing refs have id 0 or less
	c.sc.assume(eq(mk(SInt, "alloc_id", r), Term{fmt.Sprintf("%d", len(c.allocs)+1), SInt}))
	c.sc.assume(not(eq(r, Term{"nil_ref", SRef})))
	c.allocs = append(c.allocs, r)
	return r
}

// preexisting states that a reference existed before this function allocated anything.
func (c *FuncCtx) preexisting(r Term) {
	c.sc.declFun("alloc_id", []Sort{SRef}, SInt)
	c.sc.assume(mk(SBool, "<=", mk(SInt, "alloc_id", r), Term{"0", SInt}))
}

// ---------------------------------------------------------------------------------------------
// running a function body

// run executes fn's body from the given entry state; returns are collected in fr.rets.
func (fr *Frame) run(st *State, reach Term) error {
	c := fr.c
	fn := fr.fn
	if len(fn.Blocks) == 0 {
		return fmt.Errorf("function %s has no body", fn)
	}
	for _, b := range fn.Blocks {
		for _, in := range b.Instrs {
			if d, ok := in.(*ssa.Defer); ok {
				key := fmt.Sprintf("D:%s#%d@%d", sanitize(fn.Name()), len(fr.deferKeys), fr.frameID)
				if fr.deferKeys == nil {
					fr.deferKeys = map[*ssa.Defer]string{}
				}
				fr.deferKeys[d] = key
				c.registerKey(key, SBool, true)
				st.set(key, tFalse)
			}
		}
	}
	for _, l := range fr.loops.heads {
		c.registerKey(fr.doneKey(l), SBool, true)
		st.set(fr.doneKey(l), tFalse)
	}
	// iteration counters of unrolled loops: -1 until the loop is reached
	if fr.con != nil {
		for _, l := range fr.loops.heads {
			if fr.unrollCount(l) > 0 {
				iterKey := fmt.Sprintf("U:loop%d@%d", l.ordinal, fr.frameID)
				c.registerKey(iterKey, c.sc.idxSort(), true)
				st.set(iterKey, c.sc.idxLit(-1))
			}
		}
	}
	fr.entry = st.clone()
	fr.inEdges[fn.Blocks[0]] = []predEdge{{nil, reach, st}}
	return fr.runBlocks(fr.loops.order, nil)
}

// runBlocks executes the given blocks (in topological order). When `within` is non-nil only blocks
// of that loop are executed (one unrolled iteration).
func (fr *Frame) runBlocks(order []*ssa.BasicBlock, within *loop) error {
	c := fr.c
	fn := fr.fn
	for _, b := range order {
		if within != nil && !within.body[b] {
			continue
		}
		if fr.doneBlocks[b] && within == nil {
			continue
		}
		if within != nil && fr.innerDone[b] {
			continue
		}
		edges := fr.inEdges[b]
		if len(edges) == 0 {
			continue
		}
		var ies []inEdge
		var conds []Term
		for _, e := range edges {
			ies = append(ies, inEdge{e.cond, e.st})
			conds = append(conds, e.cond)
		}
		breach := c.sc.define(fmt.Sprintf("reach_%s_b%d", sanitize(fn.Name()), b.Index), or(conds...))
		if breach.S == "false" {
			continue
		}
		bst := c.mergeStates(ies, fmt.Sprintf("b%d", b.Index))
		fr.curBlock = b
		fr.setReach(breach)
		if l := fr.loops.heads[b]; l != nil && l != within {
			if n := fr.unrollCount(l); n > 0 {
				if err := fr.runUnrolled(l, n); err != nil {
					return err
				}
				continue
			}
			if err := fr.enterLoop(l, bst); err != nil {
				return err
			}
		}
		if err := fr.execBlock(b, bst); err != nil {
			return err
		}
	}
	return nil
}

func (fr *Frame) unrollCount(l *loop) int {
	if fr.con == nil {
		return 0
	}
	if n := fr.con.Unroll[l.ordinal]; n > 0 {
		return n
	}
	for a, n := range fr.con.UnrollAnchor {
		if fr.anchorOrdinal(a) == l.ordinal {
			return n
		}
	}
	return 0
}

// runUnrolled executes loop l by unrolling it n times; an "unwind" obligation states that no
// further iteration is possible, so the unrolling is exact (not a bounded stand-in).
func (fr *Frame) runUnrolled(l *loop, n int) error {
	if fr.doneBlocks == nil {
		fr.doneBlocks = map[*ssa.BasicBlock]bool{}
	}
	outer := fr.unrolling
	fr.unrolling = l
	saveInner := fr.innerDone
	defer func() { fr.unrolling = outer; fr.innerDone = saveInner }()
	var order []*ssa.BasicBlock
	for _, b := range fr.loops.order {
		if l.body[b] {
			order = append(order, b)
		}
	}
	iterKey := fmt.Sprintf("U:loop%d@%d", l.ordinal, fr.frameID)
	fr.c.registerKey(iterKey, fr.c.sc.idxSort(), true)
	setIter := func(k int) {
		for _, e := range fr.inEdges[l.head] {
			e.st.set(iterKey, fr.c.sc.idxLit(int64(k)))
		}
	}
	for iter := 0; iter < n; iter++ {
		fr.pendingBack = nil
		fr.innerDone = map[*ssa.BasicBlock]bool{}
		setIter(iter)
		if err := fr.runBlocks(order, l); err != nil {
			return err
		}
		back := fr.pendingBack
		fr.pendingBack = nil
		for _, b := range order {
			delete(fr.inEdges, b)
		}
		if len(back) == 0 {
			break
		}
		fr.inEdges[l.head] = back
		if iter == n-1 {
			// after n iterations only the loop head is executed once more (it decides the exit);
			// every edge from it back into the body is the unwinding obligation
			fr.innerDone = map[*ssa.BasicBlock]bool{}
			setIter(n)
			if err := fr.runBlocks([]*ssa.BasicBlock{l.head}, l); err != nil {
				return err
			}
			var conds []Term
			for _, b := range order {
				if b == l.head {
					continue
				}
				for _, e := range fr.inEdges[b] {
					conds = append(conds, e.cond)
				}
			}
			for _, e := range fr.pendingBack {
				conds = append(conds, e.cond)
			}
			fr.pendingBack = nil
			fr.oblige("unwind", fmt.Sprintf("loop%d", l.ordinal), not(or(conds...)), token.NoPos, fmt.Sprintf("loop %d needs no more than %d iterations (unrolling is exact)", l.ordinal, n))
			for _, b := range order {
				delete(fr.inEdges, b)
			}
		}
	}
	for _, b := range order {
		fr.doneBlocks[b] = true
		if saveInner != nil {
			saveInner[b] = true
		}
	}
	return nil
}

func (fr *Frame) edge(from, to *ssa.BasicBlock, cond Term, st *State) {
	if cond.S == "false" {
		return
	}
	// $doneK: loop K was left through its head (its condition became false / the range is
	// exhausted), as opposed to a break or return from inside the body
	if l := fr.loops.heads[from]; l != nil && !l.body[to] {
		st = st.clone()
		st.set(fr.doneKey(l), tTrue)
	}
	if fr.loops.backEdge[[2]int{from.Index, to.Index}] {
		if fr.unrolling != nil && fr.unrolling.head == to {
			fr.pendingBack = append(fr.pendingBack, predEdge{from, cond, st})
			return
		}
		fr.backEdge(fr.loops.heads[to], from, cond, st)
		return
	}
	fr.inEdges[to] = append(fr.inEdges[to], predEdge{from, cond, st})
}

func (fr *Frame) execBlock(b *ssa.BasicBlock, st *State) error {
	c := fr.c
	for _, in := range b.Instrs {
		if fr.reach.S == "false" {
			return nil
		}
		switch x := in.(type) {
		case *ssa.If:
			cond := c.sc.define("br", fr.term(x.Cond, st))
			fr.edge(b, b.Succs[0], c.sc.define("e", and(fr.reach, cond)), st)
			fr.edge(b, b.Succs[1], c.sc.define("e", and(fr.reach, not(cond))), st.clone())
			return nil
		case *ssa.Jump:
			fr.edge(b, b.Succs[0], fr.reach, st)
			return nil
		case *ssa.Return:
			var vals []Term
			for _, r := range x.Results {
				vals = append(vals, fr.term(r, st))
			}
			fr.rets = append(fr.rets, retInfo{fr.reach, vals, st, x.Pos()})
			return nil
		case *ssa.Panic:
			if c.safety && fr.ownCode() {
				fr.oblige("panic", "explicit", not(fr.reach), x.Pos(), "reachable panic()")
			}
			return nil
		default:
			if err := fr.exec(in, st); err != nil {
				return err
			}
		}
	}
	return nil
}

// ownCode: the frame executes code of the function under verification (itself or its closures).
func (fr *Frame) ownCode() bool {
	f := fr.fn
	for f != nil {
		if f == fr.c.top {
			return true
		}
		f = f.Parent()
	}
	return false
}

func (fr *Frame) oblige(kind, detail string, goal Term, pos token.Pos, what string) *Obligation {
	c := fr.c
	base := fmt.Sprintf("%s/%s", c.funcName, kind)
	if fr.fn != c.top {
		base = fmt.Sprintf("%s/%s@%s", c.funcName, kind, shortFn(fr.fn, c.top))
	}
	if detail != "" {
		base += "/" + detail
	}
	c.oblCount[base]++
	name := fmt.Sprintf("%s#%d", base, c.oblCount[base])
	g := c.sc.define("goal", goal)
	// universally quantified index variables of the goal are replaced by fresh constants (proving
	// the body for an arbitrary constant proves the forall); the constants become index terms, so
	// the quantified assumptions get instantiated with them
	proveGoal := g
	sk, extra := c.skolemizeGoal(goal.S)
	if sk != goal.S {
		proveGoal = Term{sk, SBool}
	}
	o := &Obligation{Name: name, Kind: kind, Func: c.funcName, Props: c.props, Goal: proveGoal, Detail: what, Extra: extra}
	if c.pendingParts != nil {
		for _, p := range c.pendingParts {
			o.Parts = append(o.Parts, clausePart{p.Text, c.sc.define("part", implies(c.pendingGuard, p.Goal))})
		}
		c.pendingParts = nil
	}
	if pos.IsValid() {
		o.Pos = c.v.fset.Position(pos).String()
	}
	c.sc.oblige(o)
	c.sc.assume(g) // a checked obligation is assumed afterwards
	c.noteAssumption(goal.S)
	return o
}

func shortFn(fn, top *ssa.Function) string {
	n := fn.Name()
	if fn.Parent() != nil {
		return n
	}
	if top == nil || top.Pkg == nil { // an instantiation of a generic function has no package of its own
		return n
	}
	return fn.RelString(top.Pkg.Pkg)
}

// ---------------------------------------------------------------------------------------------
// loops

func (fr *Frame) loopClauses(l *loop, kind string) []*Clause {
	var out []*Clause
	if fr.con == nil {
		return nil
	}
	src := fr.con.Invs
	if kind == "decreases" {
		src = fr.con.Decreases
	}
	for _, cl := range src {
		if cl.LoopAnchor != "" {
			if fr.anchorOrdinal(cl.LoopAnchor) == l.ordinal {
				out = append(out, cl)
			}
			continue
		}
		if cl.Loop == l.ordinal {
			out = append(out, cl)
		}
	}
	return out
}

// anchorOrdinal: the ordinal of the innermost loop of this function whose body contains a call of
// `callee` (0 when there is none). Loops named this way keep their clauses when loops are reordered.
func (fr *Frame) anchorOrdinal(callee string) int {
	if fr.anchorOrd == nil {
		fr.anchorOrd = map[string]int{}
	}
	if o, ok := fr.anchorOrd[callee]; ok {
		return o
	}
	best, bestSize := 0, 0
	for _, l := range fr.loops.heads {
		has := false
		for b := range l.body {
			for _, in := range b.Instrs {
				if ci, ok := in.(ssa.CallInstruction); ok {
					if k := fr.c.v.calleeKey(ci.Common()); k != "" && fr.c.v.keyMatches(k, callee) {
						has = true
					}
				}
			}
		}
		if has && (best == 0 || len(l.body) < bestSize) {
			best, bestSize = l.ordinal, len(l.body)
		}
	}
	fr.anchorOrd[callee] = best
	return best
}

type loopRun struct {
	variant *Term
	varTy   types.Type
	rangeIx string // state key of the rangeindex cell
	autoInv func(st *State) Term
	frameKeys []string
}

func (fr *Frame) enterLoop(l *loop, st *State) error {
	c := fr.c
	lr := &loopRun{}
	if fr.loopRuns == nil {
		fr.loopRuns = map[*loop]*loopRun{}
	}
	fr.loopRuns[l] = lr
	// structural invariant of range-over-index loops
	if l.head.Comment == "rangeindex.loop" && len(l.head.Instrs) >= 4 {
		if ld, ok := l.head.Instrs[0].(*ssa.UnOp); ok && ld.Op == token.MUL {
			if a, ok := ld.X.(*ssa.Alloc); ok && !fr.heapCell[a] {
				for _, in := range l.head.Instrs {
					if bo, ok := in.(*ssa.BinOp); ok && bo.Op == token.LSS {
						if lenV, ok := fr.env[bo.Y]; ok || isConstVal(bo.Y) {
							var lenT Term
							if ok {
								lenT = lenV.T[0]
							} else {
								lenT = c.constTerm(bo.Y.(*ssa.Const))
							}
							key := fr.cellKey(a)
							lr.rangeIx = key
							lr.autoInv = func(s *State) Term {
								cur := c.get(s, key)
								return and(c.le(c.sc.intLit(-1, 64), cur), c.lt(cur, lenT), c.le(c.sc.intLit(0, 64), lenT))
							}
						}
					}
				}
			}
		}
	}
	invs := fr.loopClauses(l, "invariant")
	if len(invs) == 0 && lr.autoInv == nil && c.topCon != nil && fr.ownCode() && !c.v.lenientLoops {
		// a loop without invariant: everything it modifies is simply havoced (sound over-approximation)
	}
	ec := fr.evalCtx(st, fr.entry, l.head.Instrs[0].Pos())
	ec.rangeIx = lr.rangeIx
	if lr.autoInv != nil {
		fr.oblige("invariant-entry", fmt.Sprintf("loop%d/range", l.ordinal), implies(fr.reach, lr.autoInv(st)), token.NoPos, "range index bounds on entry")
	}
	for i, cl := range invs {
		t, err := ec.evalClause(cl.Expr)
		if err != nil {
			c.stale = append(c.stale, fmt.Sprintf("%s:%d: %v", cl.File, cl.Line, err))
			continue
		}
		fr.oblige("invariant-entry", fmt.Sprintf("loop%d/%s", l.ordinal, clauseLabel(cl, i)), implies(fr.reach, t), token.NoPos, "loop invariant holds on entry: "+oneLine(cl.Text))
	}
	// a function that modifies nothing keeps, as an automatic loop invariant, every object that
	// existed at entry unchanged in the heap arrays the loop writes
	frameLoop := fr.isTop && fr.con != nil && (fr.con.Pure || modifiesNothing(fr.con) || len(modifiesPointees(fr.con)) > 0)
	pre := st.clone()
	// havoc what the loop modifies
	lr.frameKeys = fr.havocLoop(l, st)
	if frameLoop {
		for _, k := range lr.frameKeys {
			fr.oblige("invariant-entry", fmt.Sprintf("loop%d/frame/%s", l.ordinal, sanitize(k)), implies(fr.reach, fr.frameInv(k, pre)), token.NoPos, "frame: "+k+" unchanged on loop entry")
			c.sc.assume(implies(fr.reach, fr.frameInv(k, st)))
		}
	} else {
		lr.frameKeys = nil
	}
	// call sites inside the loop: at the head of an arbitrary iteration the event of a site is the
	// call made in some earlier iteration (if any): arbitrary arguments and results, constrained
	// only by the invariants (which are checked against the real events at the back edge)
	if len(invs) > 0 {
		var ins []ssa.Instruction
		for in, si := range fr.sites {
			if l.body[in.Block()] && si.key != "" {
				ins = append(ins, in)
			}
		}
		sort.Slice(ins, func(i, j int) bool {
			a, b := fr.sites[ins[i]], fr.sites[ins[j]]
			if a.key != b.key {
				return a.key < b.key
			}
			return a.ord < b.ord
		})
		for _, in := range ins {
			si := fr.sites[in]
			cc, ok := in.(ssa.CallInstruction)
			if !ok {
				continue
			}
			com := cc.Common()
			ev := &Event{did: c.sc.fresh("prev_did", SBool), block: in.Block(), key: si.key, ord: si.ord}
			if com.IsInvoke() {
				ev.args = append(ev.args, TV{T: c.freshOfType("prev_arg", com.Value.Type()), Ty: com.Value.Type()})
			}
			for _, a := range com.Args {
				ev.args = append(ev.args, TV{T: c.freshOfType("prev_arg", a.Type()), Ty: a.Type()})
			}
			res := com.Signature().Results()
			for i := 0; i < res.Len(); i++ {
				ev.rets = append(ev.rets, TV{T: c.freshOfType("prev_ret", res.At(i).Type()), Ty: res.At(i).Type()})
			}
			fr.events[fmt.Sprintf("%s#%d", si.key, si.ord)] = ev
		}
	}
	ec = fr.evalCtx(st, fr.entry, l.head.Instrs[0].Pos())
	ec.rangeIx = lr.rangeIx
	if lr.autoInv != nil {
		c.sc.assume(implies(fr.reach, lr.autoInv(st)))
	}
	for _, cl := range invs {
		t, err := ec.evalBool(cl.Expr)
		if err != nil {
			continue
		}
		c.sc.assume(implies(fr.reach, t))
	}
	for _, cl := range fr.loopClauses(l, "decreases") {
		tv, err := ec.eval(cl.Expr)
		if err != nil {
			c.stale = append(c.stale, fmt.Sprintf("%s:%d: %v", cl.File, cl.Line, err))
			continue
		}
		tv = ec.concretise(tv, types.Typ[types.Int])
		d := c.sc.define("variant", tv.T)
		lr.variant = &d
		lr.varTy = tv.Ty
	}
	return nil
}

func isConstVal(v ssa.Value) bool { _, ok := v.(*ssa.Const); return ok }

func clauseLabel(cl *Clause, i int) string {
	if cl.Label != "" {
		return cl.Label
	}
	return fmt.Sprintf("%d", i+1)
}

func oneLine(s string) string {
	s = strings.Join(strings.Fields(s), " ")
	if len(s) > 160 {
		s = s[:157] + "..."
	}
	return s
}

func (fr *Frame) backEdge(l *loop, from *ssa.BasicBlock, cond Term, st *State) {
	c := fr.c
	lr := fr.loopRuns[l]
	ec := fr.evalCtx(st, fr.entry, l.head.Instrs[0].Pos())
	ec.rangeIx = lr.rangeIx
	if lr.autoInv != nil {
		fr.oblige("invariant-preserved", fmt.Sprintf("loop%d/range", l.ordinal), implies(cond, lr.autoInv(st)), token.NoPos, "range index bounds preserved")
	}
	for _, k := range lr.frameKeys {
		fr.oblige("invariant-preserved", fmt.Sprintf("loop%d/frame/%s", l.ordinal, sanitize(k)), implies(cond, fr.frameInv(k, st)), token.NoPos, "frame: "+k+" unchanged by the loop body")
	}
	for i, cl := range fr.loopClauses(l, "invariant") {
		t, err := ec.evalBool(cl.Expr)
		if err != nil {
			c.stale = append(c.stale, fmt.Sprintf("%s:%d: %v", cl.File, cl.Line, err))
			continue
		}
		fr.oblige("invariant-preserved", fmt.Sprintf("loop%d/%s", l.ordinal, clauseLabel(cl, i)), implies(cond, t), token.NoPos, "loop invariant preserved: "+oneLine(cl.Text))
	}
	for _, cl := range fr.loopClauses(l, "decreases") {
		if lr.variant == nil {
			continue
		}
		tv, err := ec.eval(cl.Expr)
		if err != nil {
			continue
		}
		tv = ec.concretise(tv, types.Typ[types.Int])
		var zero Term
		if c.sc.mathInts {
			zero = Term{"0", SInt}
		} else {
			zero = c.sc.intLit(0, widthOf(tv.Ty))
		}
		fr.oblige("decreases", fmt.Sprintf("loop%d", l.ordinal), implies(cond, and(c.le(zero, *lr.variant), c.lt(tv.T, *lr.variant))), token.NoPos, "loop variant decreases and is bounded below: "+oneLine(cl.Text))
	}
}

// havocLoop forgets everything the loop body may modify.
func (fr *Frame) havocLoop(l *loop, st *State) []string {
	c := fr.c
	all := false
	var blocks []*ssa.BasicBlock
	for b := range l.body {
		blocks = append(blocks, b)
	}
	sort.Slice(blocks, func(i, j int) bool { return blocks[i].Index < blocks[j].Index })
	cells := map[string]Sort{}
	heaps := map[string]bool{}
	fr.loopFields, fr.loopWhole, fr.loopFieldT = map[string]map[int]bool{}, map[string]bool{}, map[string]types.Type{}
	defer func() { fr.loopFields, fr.loopWhole, fr.loopFieldT = nil, nil, nil }()
	for _, b := range blocks {
		for _, in := range b.Instrs {
			fr.markEscaped(in)
			switch x := in.(type) {
			case *ssa.Store:
				fr.havocTarget(x.Addr, cells, heaps)
			case *ssa.MapUpdate:
				if mt, ok := under(x.Map.Type()).(*types.Map); ok {
					dk, vk := c.regMap(c.sortOf(mt.Key()), c.sortOf(mt.Elem()))
					heaps[dk], heaps[vk] = true, true
				}
			case *ssa.Next:
				// the ghost set of visited keys of a range over a map grows in the loop
				if rng, ok := x.Iter.(*ssa.Range); ok {
					if key, has := fr.visitedKey(rng); has && st.has(key) {
						cells[key] = c.keys[key].sort
					}
				}
			case ssa.CallInstruction:
				com := x.Common()
				if bi, ok := com.Value.(*ssa.Builtin); ok {
					switch bi.Name() {
					case "append", "copy":
						if sl, ok := under(com.Args[0].Type()).(*types.Slice); ok {
							heaps[c.regElem(c.sortOf(sl.Elem()))] = true
						}
					case "delete", "clear":
						all = true
					}
					continue
				}
				eff := fr.calleeEffects(com)
				if eff == effAll {
					all = true
				}
				if eff != effNone {
					// pointer arguments: pointees may change
					for _, a := range com.Args {
						fr.havocTarget(a, cells, heaps)
						// map and slice arguments are references to their entries / elements
						switch u := under(a.Type()).(type) {
						case *types.Map:
							dk, vk := c.regMap(c.sortOf(u.Key()), c.sortOf(u.Elem()))
							heaps[dk], heaps[vk] = true, true
						case *types.Slice:
							heaps[c.regElem(c.sortOf(u.Elem()))] = true
						}
					}
					if !com.IsInvoke() {
						// receiver passed as first arg already
					}
				}
				if _, ok := in.(*ssa.Go); ok {
					all = true
				}
			case *ssa.Select, *ssa.RunDefers:
				all = true
			}
		}
	}
	keys := make([]string, 0, len(cells))
	for k := range cells {
		keys = append(keys, k)
	}
	sort.Strings(keys)
	for _, k := range keys {
		if st.has(k) {
			if fs := fr.loopFields[k]; len(fs) > 0 && !fr.loopWhole[k] {
				if si := c.structInfoOf(fr.loopFieldT[k]); si != nil {
					cur := c.get(st, k)
					idx := make([]int, 0, len(fs))
					for f := range fs {
						idx = append(idx, f)
					}
					sort.Ints(idx)
					for _, f := range idx {
						cur = c.sc.define("lhf", c.fieldUpd(cur, fr.loopFieldT[k], f, c.sc.fresh("lh_"+k+"_f", si.fields[f])))
					}
					st.set(k, cur)
					fr.wfKey(k, st)
					continue
				}
			}
			st.set(k, c.sc.fresh("lh_"+k, c.keys[k].sort))
			fr.wfKey(k, st)
		}
	}
	if all {
		c.havocAll(st)
		return nil
	}
	hk := make([]string, 0, len(heaps))
	for k := range heaps {
		hk = append(hk, k)
	}
	sort.Strings(hk)
	for _, k := range hk {
		st.set(k, c.sc.fresh("lh_"+k, c.keys[k].sort))
	}
	if len(hk) > 0 { // a loop that writes no heap cell leaves heap-reading pure applications comparable
		c.heapWritten(st)
	}
	return hk
}

// frameInv: objects that existed at function entry are unchanged in heap array k.
func (fr *Frame) frameInv(k string, st *State) Term {
	c := fr.c
	entry, cur := c.get(fr.entry, k), c.get(st, k)
	if entry.S == cur.S {
		return tTrue
	}
	if !strings.HasPrefix(string(entry.Sort), "(Array Ref ") {
		return eq(cur, entry)
	}
	inner := Sort(strings.TrimSuffix(strings.TrimPrefix(string(entry.Sort), "(Array Ref "), ")"))
	c.sc.declFun("alloc_id", []Sort{SRef}, SInt)
	guard := "(<= (alloc_id r) 0)"
	if fr.con != nil && len(modifiesPointees(fr.con)) > 0 {
		for _, e := range fr.frameExcept() {
			guard = fmt.Sprintf("(and %s (not (= r %s)))", guard, e.S)
		}
	}
	return Term{fmt.Sprintf("(forall ((r Ref)) (=> %s (= %s %s)))", guard, sel(cur, Term{"r", SRef}, inner).S, sel(entry, Term{"r", SRef}, inner).S), SBool}
}

// wfKey re-establishes type well-formedness of a havoced local cell.
func (fr *Frame) wfKey(k string, st *State) {
	if t, ok := fr.cellTypes[k]; ok {
		fr.c.wellFormed(st.m[k], t)
	}
}

func (fr *Frame) havocTarget(addr ssa.Value, cells map[string]Sort, heaps map[string]bool) {
	c := fr.c
	pt, ok := under(addr.Type()).(*types.Pointer)
	if !ok {
		return
	}
	// walk to the root of the address expression
	root := addr
	var last ssa.Value // the address step applied directly to the root
	for {
		switch x := root.(type) {
		case *ssa.FieldAddr:
			last = x
			root = x.X
			continue
		case *ssa.IndexAddr:
			if _, isPtr := under(x.X.Type()).(*types.Pointer); isPtr {
				last = x
				root = x.X
				continue
			}
			// slice element
			if sl, ok := under(x.X.Type()).(*types.Slice); ok {
				heaps[c.regElem(c.sortOf(sl.Elem()))] = true
			}
			return
		}
		break
	}
	if a, ok := root.(*ssa.Alloc); ok && !fr.heapCell[a] {
		k := fr.cellKey(a)
		cells[k] = c.sortOf(a.Type().(*types.Pointer).Elem())
		// a store through a field of a local struct changes that field only
		if fr.loopFields != nil {
			if fa, ok := last.(*ssa.FieldAddr); ok && !fr.loopWhole[k] {
				if fr.loopFields[k] == nil {
					fr.loopFields[k] = map[int]bool{}
					fr.loopFieldT[k] = a.Type().(*types.Pointer).Elem()
				}
				fr.loopFields[k][fa.Field] = true
			} else {
				fr.loopWhole[k] = true
			}
		}
		return
	}
	if g, ok := root.(*ssa.Global); ok {
		l := c.globalLVal(g)
		if !c.keys[l.key].local {
			heaps[l.key] = true
		}
		return
	}
	rpt, ok := under(root.Type()).(*types.Pointer)
	if !ok {
		rpt = pt
	}
	if arr, ok := under(rpt.Elem()).(*types.Array); ok {
		heaps[c.regElem(c.sortOf(arr.Elem()))] = true
	} else {
		heaps[c.regHeap(c.sortOf(rpt.Elem()))] = true
	}
}

func (fr *Frame) cellKey(a *ssa.Alloc) string {
	k := fmt.Sprintf("L:%s.%s#%d", sanitize(fr.fn.Name()), sanitize(a.Comment), fr.allocID(a))
	if fr.depth > 0 {
		k = fmt.Sprintf("%s@%d", k, fr.frameID)
	}
	return k
}

func (fr *Frame) allocID(a *ssa.Alloc) int {
	if fr.allocIDs == nil {
		fr.allocIDs = map[*ssa.Alloc]int{}
		n := 0
		for _, b := range fr.fn.Blocks {
			for _, in := range b.Instrs {
				if al, ok := in.(*ssa.Alloc); ok {
					n++
					fr.allocIDs[al] = n
				}
			}
		}
	}
	return fr.allocIDs[a]
}

// heapWritten: a heap cell changed; heap-reading pure applications over deep types must not be
// identified across this point (only when an epoch is in use at all).
func (c *FuncCtx) heapWritten(st *State) {
	c.bumpEpoch(st)
}

// Escape analysis for allocations: an object allocated by the function is private (unreachable
// for callees, hence unaffected by havoc) until the first instruction at which its address, or a
// slice of it, flows somewhere other than a local dereference / index / local variable.
func collectEscapes(v ssa.Value, seen map[ssa.Value]bool, out *[]ssa.Instruction, self ssa.Instruction) {
	if seen[v] {
		return
	}
	seen[v] = true
	refs := v.Referrers()
	if refs == nil {
		*out = append(*out, self)
		return
	}
	for _, r := range *refs {
		switch u := r.(type) {
		case *ssa.DebugRef:
		case *ssa.UnOp:
			if u.Op != token.MUL || u.X != v {
				*out = append(*out, r)
			}
		case *ssa.Store:
			if u.Val == v {
				// stored into a local variable: follow the loads of that variable
				cell, ok := u.Addr.(*ssa.Alloc)
				if !ok || cell.Referrers() == nil || cell.Heap {
					*out = append(*out, r)
					continue
				}
				for _, cr := range *cell.Referrers() {
					switch cu := cr.(type) {
					case *ssa.Store:
						if cu.Addr != cell {
							*out = append(*out, cr)
						}
					case *ssa.UnOp:
						if cu.Op != token.MUL {
							*out = append(*out, cr)
						} else {
							collectEscapes(cu, seen, out, cu)
						}
					case *ssa.DebugRef:
					default:
						*out = append(*out, cr)
					}
				}
				continue
			}
			if u.Addr != v {
				*out = append(*out, r)
			}
		case *ssa.FieldAddr:
			collectEscapes(u, seen, out, u)
		case *ssa.IndexAddr:
			if u.X != v {
				*out = append(*out, r)
			} else {
				collectEscapes(u, seen, out, u)
			}
		case *ssa.Slice:
			if u.X != v {
				*out = append(*out, r)
			} else {
				collectEscapes(u, seen, out, u)
			}
		case *ssa.Call:
			b, ok := u.Call.Value.(*ssa.Builtin)
			if !ok || (b.Name() != "len" && b.Name() != "cap") {
				*out = append(*out, r)
			}
		case *ssa.MakeClosure:
			if !closureKeepsPrivate(u, v) {
				*out = append(*out, r)
			}
		case *ssa.MapUpdate:
			if u.Map != v || u.Key == v || u.Value == v {
				*out = append(*out, r)
			}
		case *ssa.Lookup:
			if u.X != v || u.Index == v {
				*out = append(*out, r)
			}
		case *ssa.Range:
			// the iterator yields copies of keys and elements, never the map itself
		default:
			*out = append(*out, r)
		}
	}
}

// closureKeepsPrivate: v is captured by closure mc, but mc is only deferred or called on the spot
// by the function itself (never passed or stored), and inside the closure the captured variable is
// only read and written: the variable stays unreachable for every other function.
func closureKeepsPrivate(mc *ssa.MakeClosure, v ssa.Value) bool {
	refs := mc.Referrers()
	if refs == nil {
		return false
	}
	for _, r := range *refs {
		switch x := r.(type) {
		case *ssa.DebugRef:
		case *ssa.Defer:
			if x.Call.Value != mc {
				return false
			}
			for _, a := range x.Call.Args {
				if a == ssa.Value(mc) {
					return false
				}
			}
		case *ssa.Call:
			if x.Call.Value != mc {
				return false
			}
			for _, a := range x.Call.Args {
				if a == ssa.Value(mc) {
					return false
				}
			}
		default:
			return false
		}
	}
	fn, ok := mc.Fn.(*ssa.Function)
	if !ok {
		return false
	}
	for i, b := range mc.Bindings {
		if b != v || i >= len(fn.FreeVars) {
			continue
		}
		if fn.FreeVars[i].Referrers() == nil {
			return false
		}
		var esc []ssa.Instruction
		collectEscapes(fn.FreeVars[i], map[ssa.Value]bool{}, &esc, mc)
		if len(esc) > 0 {
			return false
		}
	}
	return true
}

type privRef struct {
	t  Term
	a  ssa.Value // *ssa.Alloc or *ssa.MakeMap (nil: never escapes)
	fr *Frame
}

// escapesAt computes, per instruction, the allocations that stop being private there.
func escapesAt(fn *ssa.Function) map[ssa.Instruction][]ssa.Value {
	out := map[ssa.Instruction][]ssa.Value{}
	for _, b := range fn.Blocks {
		for _, in := range b.Instrs {
			var a ssa.Value
			switch x := in.(type) {
			case *ssa.Alloc:
				a = x
			case *ssa.MakeMap:
				// a map made here is private in the same sense: until the map value itself flows
				// anywhere but a local variable, an update, a lookup, a range or len
				a = x
			default:
				continue
			}
			var esc []ssa.Instruction
			collectEscapes(a, map[ssa.Value]bool{}, &esc, in)
			for _, e := range esc {
				out[e] = append(out[e], a)
			}
		}
	}
	return out
}

// markEscaped removes allocations escaping at instruction `in` from the private set.
func (fr *Frame) markEscaped(in ssa.Instruction) {
	allocs := fr.escapeAt[in]
	if len(allocs) == 0 || len(fr.c.privateRefs) == 0 {
		return
	}
	var keep []privRef
	for _, p := range fr.c.privateRefs {
		esc := false
		if p.fr == fr && p.a != nil {
			for _, a := range allocs {
				if a == p.a {
					esc = true
				}
			}
		}
		if !esc {
			keep = append(keep, p)
		}
	}
	fr.c.privateRefs = keep
}

func (fr *Frame) doneKey(l *loop) string {
	return fmt.Sprintf("X:loop%d@%d", l.ordinal, fr.frameID)
}


// currentRangeIx: the index cell of the innermost range-over-index loop that contains the block
// being executed (so that sinks inside a loop can say $i).
func (fr *Frame) currentRangeIx() string {
	best, bestSize := "", -1
	for l, lr := range fr.loopRuns {
		if lr == nil || lr.rangeIx == "" || fr.curBlock == nil || !l.body[fr.curBlock] {
			continue
		}
		if bestSize == -1 || len(l.body) < bestSize {
			best, bestSize = lr.rangeIx, len(l.body)
		}
	}
	return best
}
