package main

// Lightweight syntactic knowledge about package-level variables of repository packages:
// a variable declared as `var X = errors.New(...)` (or fmt.Errorf, a composite literal, &T{...})
// and never assigned elsewhere holds a non-nil value.

import (
	"go/ast"
	"go/parser"
	"go/token"
	"os"
	"path/filepath"
	"strings"
)

var nonNilInitMemo = map[string]map[string]bool{}
var refInitMemo = map[string]bool{}

// globalInitIsRef: the initialiser is a bare reference (pkg.Name), which proves non-nilness only
// for variables of function type.
func (v *Verifier) globalInitIsRef(pkgPath, name string) bool {
	v.globalInitNonNil(pkgPath, name)
	return refInitMemo[pkgPath+"."+name]
}

func (v *Verifier) globalInitNonNil(pkgPath, name string) bool {
	m, ok := nonNilInitMemo[pkgPath]
	if !ok {
		m = map[string]bool{}
		nonNilInitMemo[pkgPath] = m
		if strings.HasPrefix(pkgPath, repoModule) {
			dir := filepath.Join(v.repo, strings.TrimPrefix(strings.TrimPrefix(pkgPath, repoModule), "/"))
			scanGlobalInitsPkg(dir, m, pkgPath)
		}
	}
	return m[name]
}

func scanGlobalInits(dir string, out map[string]bool) {
	scanGlobalInitsPkg(dir, out, "")
}

func scanGlobalInitsPkg(dir string, out map[string]bool, pkgPath string) {
	entries, err := os.ReadDir(dir)
	if err != nil {
		return
	}
	fset := token.NewFileSet()
	for _, e := range entries {
		n := e.Name()
		if e.IsDir() || !strings.HasSuffix(n, ".go") || strings.HasSuffix(n, "_test.go") {
			continue
		}
		f, err := parser.ParseFile(fset, filepath.Join(dir, n), nil, 0)
		if err != nil {
			continue
		}
		for _, d := range f.Decls {
			gd, ok := d.(*ast.GenDecl)
			if !ok || gd.Tok != token.VAR {
				continue
			}
			for _, sp := range gd.Specs {
				vs := sp.(*ast.ValueSpec)
				if len(vs.Values) != len(vs.Names) {
					continue
				}
				for i, nm := range vs.Names {
					if nonNilExpr(vs.Values[i]) {
						out[nm.Name] = true
						if _, isRef := vs.Values[i].(*ast.SelectorExpr); isRef {
							refInitMemo[pkgPath+"."+nm.Name] = true
						}
					}
				}
			}
		}
	}
}

func nonNilExpr(e ast.Expr) bool {
	switch x := e.(type) {
	case *ast.CompositeLit:
		return true
	case *ast.UnaryExpr:
		return x.Op == token.AND
	case *ast.FuncLit:
		return true
	case *ast.SelectorExpr:
		// `var F = pkg.Func`: a reference to a package-level function (or another variable; only
		// used for variables of function type, see globalLVal)
		return true
	case *ast.CallExpr:
		if sel, ok := x.Fun.(*ast.SelectorExpr); ok {
			if id, ok := sel.X.(*ast.Ident); ok {
				full := id.Name + "." + sel.Sel.Name
				switch full {
				case "errors.New", "fmt.Errorf", "regexp.MustCompile":
					return true
				}
			}
		}
	}
	return false
}
