package main

// Semantics of individual SSA instructions.

import (
	"fmt"
	"go/token"
	"go/types"
	"sort"
	"strings"

	"golang.org/x/tools/go/ssa"
)

func (fr *Frame) exec(in ssa.Instruction, st *State) error {
	c := fr.c
	fr.markEscaped(in)
	switch x := in.(type) {
	case *ssa.DebugRef:
		return nil
	case *ssa.Alloc:
		elem := x.Type().(*types.Pointer).Elem()
		if fr.heapCell[x] {
			var akey string
			if arr, ok := under(elem).(*types.Array); ok {
				akey = elemKey(c.sortOf(arr.Elem()))
			} else {
				akey = heapKey(c.sortOf(elem))
			}
			r := c.newRefIn("new_"+x.Comment, akey)
			c.privateRefs = append(c.privateRefs, privRef{r, x, fr})
			fr.markEscaped(x)
			l := c.ptrLVal(r, elem)
			fr.write(l, st, c.zero(elem))
			fr.env[x] = &Val{T: []Term{r}}
			return nil
		}
		key := fr.cellKey(x)
		c.registerKey(key, c.sortOf(elem), true)
		if fr.cellTypes == nil {
			fr.cellTypes = map[string]types.Type{}
		}
		fr.cellTypes[key] = elem
		st.set(key, c.zero(elem))
		for k := range fr.addrCache { // a new object: addresses handed out for an earlier one are not its addresses
			if k == key || strings.HasPrefix(k, key+"/") {
				delete(fr.addrCache, k)
			}
		}
		fr.env[x] = &Val{L: &LVal{kind: rkLocal, key: key, rootT: elem, typ: elem}}
		return nil
	case *ssa.Store:
		l := fr.addrOf(x.Addr, st)
		fr.nilCheckAddr(x.Addr, l, x.Pos(), st)
		v := fr.term(x.Val, st)
		if !isAtom(v.S) {
			v = c.sc.define("st", v)
		}
		if g, ok := x.Addr.(*ssa.Global); ok && fr.con != nil && len(fr.con.Sinks) > 0 {
			// assignments to package-level variables: `call store.<Name> #n requires E`, arg(1) = value
			fr.pseudoSinkKind("store."+g.Name(), x, []TV{{T: Term{"nil_ref", SRef}, Ty: x.Addr.Type()}, {T: v, Ty: x.Val.Type()}}, st)
		}
		if fa, ok := x.Addr.(*ssa.FieldAddr); ok && fr.con != nil && len(fr.con.Sinks) > 0 {
			// field assignments are addressable as sinks: `call store.<field> #n requires E` with
			// arg(0) = the struct pointer, arg(1) = the value stored
			if stT, ok := under(fa.X.Type()).(*types.Pointer).Elem().Underlying().(*types.Struct); ok {
				kind := "store." + stT.Field(fa.Field).Name()
				base := fr.val(fa.X, st)
				var bt Term
				if len(base.T) == 1 {
					bt = base.T[0]
				} else {
					bt = Term{"nil_ref", SRef}
				}
				fr.pseudoSinkKind(kind, x, []TV{{T: bt, Ty: fa.X.Type()}, {T: v, Ty: x.Val.Type()}}, st)
			}
		}
		fr.write(l, st, v)
		if l.kind == rkLocal && len(l.path) == 0 {
			if fr.cellClo == nil {
				fr.cellClo = map[string]*Closure{}
			}
			if sv := fr.val(x.Val, st); sv.Clo != nil {
				if _, seen := fr.cellClo[l.key]; seen {
					fr.cellClo[l.key] = nil // more than one closure stored: identity unknown
				} else {
					fr.cellClo[l.key] = sv.Clo
				}
			} else if _, isFn := under(x.Val.Type()).(*types.Signature); isFn {
				fr.cellClo[l.key] = nil
			}
		}
		return nil
	case *ssa.UnOp:
		return fr.execUnOp(x, st)
	case *ssa.BinOp:
		a, b := fr.term(x.X, st), fr.term(x.Y, st)
		t, err := fr.binop(x.Op, a, b, x.X.Type(), x.Y.Type(), x.Pos())
		if err != nil {
			return err
		}
		fr.setVal(x, c.sc.define(x.Name(), t))
		return nil
	case *ssa.FieldAddr:
		base := fr.addrOf(x.X, st)
		fr.nilCheckAddr(x.X, base, x.Pos(), st)
		st0 := under(x.X.Type()).(*types.Pointer).Elem()
		ft := under(st0).(*types.Struct).Field(x.Field).Type()
		fr.env[x] = &Val{L: extend(base, pathStep{field: x.Field, inT: st0}, ft)}
		return nil
	case *ssa.Field:
		v := fr.term(x.X, st)
		fr.setVal(x, c.sc.define(x.Name(), c.fieldSel(v, x.X.Type(), x.Field)))
		return nil
	case *ssa.IndexAddr:
		return fr.execIndexAddr(x, st)
	case *ssa.Index:
		return fr.execIndex(x, st)
	case *ssa.Lookup:
		return fr.execLookup(x, st)
	case *ssa.Slice:
		return fr.execSlice(x, st)
	case *ssa.Extract:
		tv := fr.val(x.Tuple, st)
		if x.Index < len(tv.T) {
			fr.setVal(x, tv.T[x.Index])
		} else {
			fr.setVal(x, c.freshOfType("extract", x.Type()))
		}
		return nil
	case *ssa.Phi:
		var t Term
		first := true
		edges := fr.inEdges[fr.curBlock]
		for i := len(x.Edges) - 1; i >= 0; i-- {
			pred := fr.curBlock.Preds[i]
			var cond *Term
			for _, e := range edges {
				if e.from == pred {
					cc := e.cond
					cond = &cc
				}
			}
			if cond == nil {
				continue // edge not taken (unreachable / back edge)
			}
			v := fr.term(x.Edges[i], st)
			if first {
				t, first = v, false
			} else {
				t = ite(*cond, v, t)
			}
		}
		if first {
			t = c.freshOfType("phi", x.Type())
		}
		fr.setVal(x, c.sc.define(x.Name(), t))
		return nil
	case *ssa.ChangeType:
		r := fr.val(x.X, st)
		fr.env[x] = r
		return nil
	case *ssa.ChangeInterface:
		fr.setVal(x, fr.term(x.X, st))
		return nil
	case *ssa.MakeInterface:
		v := fr.term(x.X, st)
		fr.setVal(x, c.sc.define(x.Name(), c.makeIface(v, x.X.Type())))
		return nil
	case *ssa.TypeAssert:
		return fr.execTypeAssert(x, st)
	case *ssa.Convert:
		return fr.execConvert(x, st)
	case *ssa.SliceToArrayPointer:
		s := fr.term(x.X, st)
		n := x.Type().(*types.Pointer).Elem().Underlying().(*types.Array).Len()
		fr.safetyOb("slice-to-array", "", c.le(c.sc.idxLit(n), c.slLen(s)), x.Pos(), "slice to array pointer conversion: length suffices")
		r := c.sc.fresh("s2a", SRef)
		if n > 0 {
			c.assumeG(not(eq(r, Term{"nil_ref", SRef})))
		}
		fr.setVal(x, r)
		c.unmodelled["SliceToArrayPointer result contents"] = true
		return nil
	case *ssa.MakeSlice:
		ln, cp := fr.idxTerm(x.Len, st), fr.idxTerm(x.Cap, st)
		z := c.sc.idxLit(0)
		fr.safetyOb("make-len", "", and(c.le(z, ln), c.le(ln, cp)), x.Pos(), "make([]T, len, cap): 0 <= len <= cap")
		et := under(x.Type()).(*types.Slice).Elem()
		es := c.sortOf(et)
		r := c.newRefIn("mkslice", elemKey(es))
		k := c.regElem(es)
		zarr := c.zeroArray(et)
		st.set(k, c.sc.define("elems", sto(c.get(st, k), r, zarr)))
		fr.setVal(x, c.sc.define(x.Name(), c.mkSlice(r, z, ln, cp)))
		return nil
	case *ssa.MakeMap:
		r := c.newRef("mkmap")
		mt := under(x.Type()).(*types.Map)
		ks, vs := c.sortOf(mt.Key()), c.sortOf(mt.Elem())
		dk, _ := c.regMap(ks, vs)
		empty := Term{fmt.Sprintf("((as const %s) false)", arraySort(ks, SBool)), arraySort(ks, SBool)}
		st.set(dk, c.sc.define("mapdom", sto(c.get(st, dk), r, empty)))
		c.privateRefs = append(c.privateRefs, privRef{r, x, fr})
		fr.markEscaped(x)
		fr.setVal(x, r)
		return nil
	case *ssa.MakeChan:
		fr.setVal(x, c.newRef("mkchan"))
		return nil
	case *ssa.MakeClosure:
		fn := x.Fn.(*ssa.Function)
		clo := &Closure{fn: fn}
		for _, b := range x.Bindings {
			clo.binds = append(clo.binds, fr.val(b, st))
		}
		t := c.sc.fresh("closure_"+fn.Name(), SFn)
		c.assumeG(not(eq(t, Term{"nil_fn", SFn})))
		fr.env[x] = &Val{T: []Term{t}, Clo: clo}
		return nil
	case *ssa.MapUpdate:
		m := fr.term(x.Map, st)
		fr.safetyOb("nil-map-write", "", not(eq(m, Term{"nil_ref", SRef})), x.Pos(), "assignment to entry in nil map")
		mt := under(x.Map.Type()).(*types.Map)
		ks, vs := c.sortOf(mt.Key()), c.sortOf(mt.Elem())
		dk, vk := c.regMap(ks, vs)
		k, v := fr.term(x.Key, st), fr.term(x.Value, st)
		fr.pseudoSink("mapupdate", x, []TV{{T: m, Ty: x.Map.Type()}, {T: k, Ty: x.Key.Type()}, {T: v, Ty: x.Value.Type()}}, st)
		dom := sel(c.get(st, dk), m, arraySort(ks, SBool))
		vals := sel(c.get(st, vk), m, arraySort(ks, vs))
		st.set(dk, c.sc.define("mapdom", sto(c.get(st, dk), m, sto(dom, k, tTrue))))
		st.set(vk, c.sc.define("mapval", sto(c.get(st, vk), m, sto(vals, k, v))))
		return nil
	case *ssa.Range:
		// iterator: keep the ranged value
		fr.env[x] = &Val{T: []Term{fr.term(x.X, st)}}
		// a range over a map starts with nothing visited (ghost set, see execNext / visited(K, key))
		if mt, isMap := under(x.X.Type()).(*types.Map); isMap {
			if key, ok := fr.visitedKey(x); ok {
				ks := c.sortOf(mt.Key())
				c.registerKey(key, arraySort(ks, SBool), true)
				st.set(key, Term{fmt.Sprintf("((as const %s) false)", arraySort(ks, SBool)), arraySort(ks, SBool)})
			}
		}
		return nil
	case *ssa.Next:
		return fr.execNext(x, st)
	case *ssa.Call:
		res, err := fr.doCall(x, x.Common(), st, false)
		if err != nil {
			return err
		}
		fr.env[x] = res
		return nil
	case *ssa.Go:
		_, err := fr.doCall(x, x.Common(), st, true)
		c.assumeNote("go statement: the spawned call is treated as an opaque call executed at the go site (no interleaving)")
		return err
	case *ssa.Defer:
		return fr.execDefer(x, st)
	case *ssa.RunDefers:
		return fr.runDefers(st)
	case *ssa.Send:
		c.havocAll(st)
		c.assumeNote("channel operations: heap havoced, no blocking/deadlock reasoning")
		return nil
	case *ssa.Select:
		c.havocAll(st)
		c.assumeNote("channel operations: heap havoced, no blocking/deadlock reasoning")
		fr.env[x] = fr.freshTuple(x.Type(), "select")
		return nil
	case *ssa.MultiConvert:
		fr.setVal(x, c.freshOfType("multiconvert", x.Type()))
		return nil
	}
	c.unmodelled[fmt.Sprintf("instruction %T", in)] = true
	if v, ok := in.(ssa.Value); ok {
		c.havocAll(st)
		fr.env[v] = fr.freshTuple(v.Type(), "unmodelled")
	}
	return nil
}

func (fr *Frame) freshTuple(t types.Type, label string) *Val {
	c := fr.c
	if tup, ok := t.(*types.Tuple); ok {
		r := &Val{}
		for i := 0; i < tup.Len(); i++ {
			r.T = append(r.T, c.freshOfType(label, tup.At(i).Type()))
		}
		return r
	}
	return &Val{T: []Term{c.freshOfType(label, t)}}
}

func (fr *Frame) idxTerm(v ssa.Value, st *State) Term {
	t := fr.term(v, st)
	return fr.c.toIdx(t, v.Type())
}

// toIdx converts an integer term of Go type ty to the index sort (int).
func (c *FuncCtx) toIdx(t Term, ty types.Type) Term {
	if c.sc.mathInts {
		return t
	}
	w := widthOf(ty)
	if w == 64 {
		return t
	}
	if isUnsigned(ty) {
		return mk(bvSort(64), fmt.Sprintf("(_ zero_extend %d)", 64-w), t)
	}
	return mk(bvSort(64), fmt.Sprintf("(_ sign_extend %d)", 64-w), t)
}

// safetyOb emits a safety obligation when the function is checked for safety.
func (fr *Frame) safetyOb(kind, detail string, cond Term, pos token.Pos, what string) {
	if !fr.c.safety || !fr.ownCode() {
		// outside a safety-checked function the condition is assumed (execution continues only if it held)
		fr.c.assumeG(implies(fr.reach, cond))
		return
	}
	fr.oblige(kind, detail, implies(fr.reach, cond), pos, what)
}

// nilCheckAddr: dereferencing through a heap pointer requires it to be non-nil.
func (fr *Frame) nilCheckAddr(v ssa.Value, l *LVal, pos token.Pos, st *State) {
	if l.kind != rkHeap && l.kind != rkElems {
		return
	}
	if len(l.path) > 0 {
		return // checked when the base address was formed
	}
	nn := not(eq(l.ref, Term{"nil_ref", SRef}))
	if fr.knownNonNil(v) {
		return
	}
	fr.safetyOb("nil-deref", "", nn, pos, "nil pointer dereference of "+v.Name()+" ("+describeOrigin(v)+")")
}

func describeOrigin(v ssa.Value) string {
	switch x := v.(type) {
	case *ssa.UnOp:
		if x.Op == token.MUL {
			if a, ok := x.X.(*ssa.Alloc); ok {
				return "local " + a.Comment
			}
			if fa, ok := x.X.(*ssa.FieldAddr); ok {
				st := under(fa.X.Type()).(*types.Pointer).Elem().Underlying().(*types.Struct)
				return "field " + st.Field(fa.Field).Name()
			}
		}
	case *ssa.Extract:
		return "call result"
	case *ssa.Call:
		return "call result"
	case *ssa.Parameter:
		return "parameter " + x.Name()
	}
	return v.Name()
}

func (fr *Frame) knownNonNil(v ssa.Value) bool {
	switch x := v.(type) {
	case *ssa.Alloc, *ssa.FieldAddr, *ssa.IndexAddr, *ssa.Global, *ssa.MakeSlice, *ssa.MakeMap:
		return true
	case *ssa.UnOp:
		// a package-level pointer variable that is only assigned by its initialiser
		if g, ok := x.X.(*ssa.Global); ok && x.Op == token.MUL && !fr.c.v.globalAssigned[g] {
			fr.c.assumeNote("package-level pointer variables that are never assigned outside init are non-nil")
			return true
		}
	}
	return false
}

func (fr *Frame) execUnOp(x *ssa.UnOp, st *State) error {
	c := fr.c
	switch x.Op {
	case token.MUL: // load
		l := fr.addrOf(x.X, st)
		fr.nilCheckAddr(x.X, l, x.Pos(), st)
		v := fr.read(l, st)
		// closures stored in local cells keep their identity
		if l.kind == rkLocal && len(l.path) == 0 {
			if clo := fr.cellClo[l.key]; clo != nil {
				fr.env[x] = &Val{T: []Term{c.sc.define(x.Name(), v)}, Clo: clo}
				return nil
			}
		}
		d := c.sc.define(x.Name(), v)
		if l.kind != rkLocal {
			c.wellFormed(d, x.Type())
			c.noteValueRefs(d, x.Type())
		}
		fr.setVal(x, d)
		return nil
	case token.NOT:
		fr.setVal(x, c.sc.define(x.Name(), not(fr.term(x.X, st))))
		return nil
	case token.SUB:
		v := fr.term(x.X, st)
		if v.Sort == SFloat {
			fr.setVal(x, c.sc.fresh("fneg", SFloat))
			return nil
		}
		if c.sc.mathInts {
			fr.setVal(x, c.sc.define(x.Name(), mk(SInt, "-", v)))
		} else {
			fr.setVal(x, c.sc.define(x.Name(), mk(v.Sort, "bvneg", v)))
		}
		return nil
	case token.XOR:
		v := fr.term(x.X, st)
		if c.sc.mathInts {
			fr.setVal(x, c.sc.fresh("bitnot", SInt))
			c.unmodelled["bitwise complement under ints math"] = true
		} else {
			fr.setVal(x, c.sc.define(x.Name(), mk(v.Sort, "bvnot", v)))
		}
		return nil
	case token.ARROW: // channel receive
		c.havocAll(st)
		c.assumeNote("channel operations: heap havoced, no blocking/deadlock reasoning")
		fr.env[x] = fr.freshTuple(x.Type(), "recv")
		return nil
	}
	return fmt.Errorf("unsupported unary op %s", x.Op)
}

func (fr *Frame) binop(op token.Token, a, b Term, ta, tb types.Type, pos token.Pos) (Term, error) {
	c := fr.c
	switch {
	case a.Sort == SBool:
		switch op {
		case token.EQL:
			return eq(a, b), nil
		case token.NEQ:
			return not(eq(a, b)), nil
		case token.LAND, token.AND:
			return and(a, b), nil
		case token.LOR, token.OR:
			return or(a, b), nil
		}
	case a.Sort == SStr:
		switch op {
		case token.EQL:
			return eq(a, b), nil
		case token.NEQ:
			return not(eq(a, b)), nil
		case token.ADD:
			c.sc.declFun("str_concat", []Sort{SStr, SStr}, SStr)
			r := mk(SStr, "str_concat", a, b)
			d := c.sc.define("cat", r)
			c.assumeG(eq(c.strlen(d), c.add(c.strlen(a), c.strlen(b))))
			c.assumeG(c.strWF(d))
			return d, nil
		case token.LSS, token.LEQ, token.GTR, token.GEQ:
			c.sc.declFun("str_lt", []Sort{SStr, SStr}, SBool)
			switch op {
			case token.LSS:
				return mk(SBool, "str_lt", a, b), nil
			case token.GTR:
				return mk(SBool, "str_lt", b, a), nil
			case token.LEQ:
				return not(mk(SBool, "str_lt", b, a)), nil
			default:
				return not(mk(SBool, "str_lt", a, b)), nil
			}
		}
	case a.Sort == SFloat && c.sc.ieeeFloats && isFloat64(ta) && isFloat64(tb):
		// IEEE 754 binary64, round to nearest even (what Go's float64 operators compute)
		switch op {
		case token.EQL:
			return mk(SBool, "fp.eq", a, b), nil
		case token.NEQ:
			return not(mk(SBool, "fp.eq", a, b)), nil
		case token.LSS:
			return mk(SBool, "fp.lt", a, b), nil
		case token.LEQ:
			return mk(SBool, "fp.leq", a, b), nil
		case token.GTR:
			return mk(SBool, "fp.gt", a, b), nil
		case token.GEQ:
			return mk(SBool, "fp.geq", a, b), nil
		case token.ADD:
			return mk(SFloat, "fp.add RNE", a, b), nil
		case token.SUB:
			return mk(SFloat, "fp.sub RNE", a, b), nil
		case token.MUL:
			return mk(SFloat, "fp.mul RNE", a, b), nil
		case token.QUO:
			return mk(SFloat, "fp.div RNE", a, b), nil
		}
		return c.sc.fresh("fop", SFloat), nil
	case a.Sort == SFloat:
		switch op {
		case token.EQL:
			return eq(a, b), nil
		case token.NEQ:
			return not(eq(a, b)), nil
		}
		c.unmodelled["floating point arithmetic"] = true
		if op == token.LSS || op == token.LEQ || op == token.GTR || op == token.GEQ {
			return c.sc.fresh("fcmp", SBool), nil
		}
		return c.sc.fresh("fop", SFloat), nil
	case isInteger(ta):
		return fr.intBinop(op, a, b, ta, tb, pos)
	default:
		switch op {
		case token.EQL:
			return c.valEq(a, b, ta), nil
		case token.NEQ:
			return not(c.valEq(a, b, ta)), nil
		}
	}
	return Term{}, fmt.Errorf("unsupported binary op %s on %s", op, ta)
}

// valEq is Go's == on non-basic comparable values.
func (c *FuncCtx) valEq(a, b Term, t types.Type) Term {
	if a.Sort == SSlice {
		// only comparison with nil is legal
		if b.S == c.nilSlice().S {
			return eq(slPtr(a), Term{"nil_ref", SRef})
		}
		if a.S == c.nilSlice().S {
			return eq(slPtr(b), Term{"nil_ref", SRef})
		}
	}
	if a.Sort == SIface {
		if b.S == c.nilIface().S {
			return eq(ifTag(a), Term{"0", SInt})
		}
		if a.S == c.nilIface().S {
			return eq(ifTag(b), Term{"0", SInt})
		}
	}
	return c.goEq(a, b, t)
}

// goEq: Go's == on arrays and structs compares elements / fields in range only (SMT array
// equality would also compare the unused indices).
func (c *FuncCtx) goEq(a, b Term, t types.Type) Term {
	switch u := under(t).(type) {
	case *types.Array:
		es := c.sortOf(u.Elem())
		if u.Len() <= 64 {
			var parts []Term
			for i := int64(0); i < u.Len(); i++ {
				ix := c.sc.idxLit(i)
				parts = append(parts, c.goEq(sel(a, ix, es), sel(b, ix, es), u.Elem()))
			}
			return and(parts...)
		}
		j := Term{"jeq", c.sc.idxSort()}
		body := implies(and(c.le(c.sc.idxLit(0), j), c.lt(j, c.sc.idxLit(u.Len()))), c.goEq(sel(a, j, es), sel(b, j, es), u.Elem()))
		return Term{fmt.Sprintf("(forall ((jeq %s)) %s)", c.sc.idxSort(), body.S), SBool}
	case *types.Struct:
		var parts []Term
		for i := 0; i < u.NumFields(); i++ {
			parts = append(parts, c.goEq(c.fieldSel(a, t, i), c.fieldSel(b, t, i), u.Field(i).Type()))
		}
		return and(parts...)
	}
	return eq(a, b)
}

func (fr *Frame) intBinop(op token.Token, a, b Term, ta, tb types.Type, pos token.Pos) (Term, error) {
	c := fr.c
	uns := isUnsigned(ta)
	if c.sc.mathInts {
		switch op {
		case token.ADD:
			return mk(SInt, "+", a, b), nil
		case token.SUB:
			return mk(SInt, "-", a, b), nil
		case token.MUL:
			return mk(SInt, "*", a, b), nil
		case token.QUO:
			fr.safetyOb("div-zero", "", not(eq(b, Term{"0", SInt})), pos, "integer division by zero")
			return c.tdiv(a, b), nil
		case token.REM:
			fr.safetyOb("div-zero", "", not(eq(b, Term{"0", SInt})), pos, "integer division by zero")
			// Go's % truncates towards zero: sign of the dividend; written with SMT mod so that the
			// solver knows 0 <= |r| < |b| without nonlinear reasoning
			z := Term{"0", SInt}
			absb := ite(mk(SBool, ">=", b, z), b, mk(SInt, "-", b))
			if uns {
				return mk(SInt, "mod", a, b), nil
			}
			return ite(mk(SBool, ">=", a, z), mk(SInt, "mod", a, absb), mk(SInt, "-", mk(SInt, "mod", mk(SInt, "-", a), absb))), nil
		case token.EQL:
			return eq(a, b), nil
		case token.NEQ:
			return not(eq(a, b)), nil
		case token.LSS:
			return mk(SBool, "<", a, b), nil
		case token.LEQ:
			return mk(SBool, "<=", a, b), nil
		case token.GTR:
			return mk(SBool, ">", a, b), nil
		case token.GEQ:
			return mk(SBool, ">=", a, b), nil
		}
		c.unmodelled["bitwise operation "+op.String()+" under ints math"] = true
		return c.sc.fresh("bitop", SInt), nil
	}
	pick := func(s, u string) string {
		if uns {
			return u
		}
		return s
	}
	switch op {
	case token.ADD:
		return mk(a.Sort, "bvadd", a, b), nil
	case token.SUB:
		return mk(a.Sort, "bvsub", a, b), nil
	case token.MUL:
		return mk(a.Sort, "bvmul", a, b), nil
	case token.QUO:
		fr.safetyOb("div-zero", "", not(eq(b, c.sc.intLit(0, widthOf(ta)))), pos, "integer division by zero")
		return mk(a.Sort, pick("bvsdiv", "bvudiv"), a, b), nil
	case token.REM:
		fr.safetyOb("div-zero", "", not(eq(b, c.sc.intLit(0, widthOf(ta)))), pos, "integer division by zero")
		return mk(a.Sort, pick("bvsrem", "bvurem"), a, b), nil
	case token.AND:
		return mk(a.Sort, "bvand", a, b), nil
	case token.OR:
		return mk(a.Sort, "bvor", a, b), nil
	case token.XOR:
		return mk(a.Sort, "bvxor", a, b), nil
	case token.AND_NOT:
		return mk(a.Sort, "bvand", a, mk(a.Sort, "bvnot", b)), nil
	case token.SHL, token.SHR:
		cnt := c.shiftCount(b, tb, widthOf(ta))
		if !isUnsigned(tb) {
			fr.safetyOb("shift-negative", "", not(mk(SBool, "bvslt", b, c.sc.intLit(0, widthOf(tb)))), pos, "negative shift amount")
		}
		if op == token.SHL {
			return mk(a.Sort, "bvshl", a, cnt), nil
		}
		return mk(a.Sort, pick("bvashr", "bvlshr"), a, cnt), nil
	case token.EQL:
		return eq(a, b), nil
	case token.NEQ:
		return not(eq(a, b)), nil
	case token.LSS:
		return mk(SBool, pick("bvslt", "bvult"), a, b), nil
	case token.LEQ:
		return mk(SBool, pick("bvsle", "bvule"), a, b), nil
	case token.GTR:
		return mk(SBool, pick("bvsgt", "bvugt"), a, b), nil
	case token.GEQ:
		return mk(SBool, pick("bvsge", "bvuge"), a, b), nil
	}
	return Term{}, fmt.Errorf("unsupported integer op %s", op)
}

func (c *FuncCtx) tdiv(a, b Term) Term {
	z := Term{"0", SInt}
	return ite(mk(SBool, ">=", a, z), mk(SInt, "div", a, b), mk(SInt, "-", mk(SInt, "div", mk(SInt, "-", a), b)))
}

// shiftCount converts the shift amount to the operand width, saturating at the width.
func (c *FuncCtx) shiftCount(b Term, tb types.Type, w int) Term {
	bw := widthOf(tb)
	if bw == w {
		return b
	}
	if bw < w {
		return mk(bvSort(w), fmt.Sprintf("(_ zero_extend %d)", w-bw), b)
	}
	// wider count: saturate
	big := mk(SBool, "bvuge", b, c.sc.uintLit(uint64(w), bw))
	tr := mk(bvSort(w), fmt.Sprintf("(_ extract %d 0)", w-1), b)
	return ite(big, c.sc.uintLit(uint64(w), w), tr)
}

func (fr *Frame) execIndexAddr(x *ssa.IndexAddr, st *State) error {
	c := fr.c
	i := fr.idxTerm(x.Index, st)
	c.noteIndexTerm(i)
	z := c.sc.idxLit(0)
	switch t := under(x.X.Type()).(type) {
	case *types.Slice:
		s := fr.term(x.X, st)
		fr.safetyOb("index", "", and(c.le(z, i), c.lt(i, c.slLen(s))), x.Pos(), "slice index in range")
		idx := c.sc.define("ix", c.add(c.slOff(s), i))
		fr.env[x] = &Val{L: &LVal{kind: rkElems, ref: slPtr(s), rootT: t.Elem(), typ: t.Elem(), path: []pathStep{{idx: &idx, inT: t.Elem(), isElem: true}}}}
	case *types.Pointer: // pointer to array
		arr := under(t.Elem()).(*types.Array)
		base := fr.addrOf(x.X, st)
		fr.nilCheckAddr(x.X, base, x.Pos(), st)
		fr.safetyOb("index", "", and(c.le(z, i), c.lt(i, c.sc.idxLit(arr.Len()))), x.Pos(), "array index in range")
		idx := c.sc.define("ix", i)
		if base.kind == rkElems && len(base.path) == 0 {
			fr.env[x] = &Val{L: &LVal{kind: rkElems, ref: base.ref, rootT: arr.Elem(), typ: arr.Elem(), path: []pathStep{{idx: &idx, inT: arr.Elem(), isElem: true}}}}
		} else {
			fr.env[x] = &Val{L: extend(base, pathStep{idx: &idx, inT: t.Elem()}, arr.Elem())}
		}
	default:
		return fmt.Errorf("IndexAddr on %s", x.X.Type())
	}
	return nil
}

func (fr *Frame) execIndex(x *ssa.Index, st *State) error {
	c := fr.c
	i := fr.idxTerm(x.Index, st)
	z := c.sc.idxLit(0)
	v := fr.term(x.X, st)
	switch t := under(x.X.Type()).(type) {
	case *types.Array:
		fr.safetyOb("index", "", and(c.le(z, i), c.lt(i, c.sc.idxLit(t.Len()))), x.Pos(), "array index in range")
		fr.setVal(x, c.sc.define(x.Name(), sel(v, i, c.sortOf(t.Elem()))))
	case *types.Basic: // string
		fr.safetyOb("index", "", and(c.le(z, i), c.lt(i, c.strlen(v))), x.Pos(), "string index in range")
		fr.setVal(x, c.sc.define(x.Name(), c.strAt(v, i)))
	default:
		return fmt.Errorf("Index on %s", x.X.Type())
	}
	return nil
}

func (c *FuncCtx) strAt(s, i Term) Term {
	bs := c.sortOf(types.Typ[types.Uint8])
	c.sc.declFun("str_at", []Sort{SStr, c.sc.idxSort()}, bs)
	t := mk(bs, "str_at", s, i)
	if c.sc.mathInts {
		d := c.sc.define("ch", t)
		c.assumeG(and(mk(SBool, "<=", Term{"0", SInt}, d), mk(SBool, "<=", d, Term{"255", SInt})))
		return d
	}
	return t
}

func (fr *Frame) execLookup(x *ssa.Lookup, st *State) error {
	c := fr.c
	switch t := under(x.X.Type()).(type) {
	case *types.Map:
		m := fr.term(x.X, st)
		k := fr.term(x.Index, st)
		ks, vs := c.sortOf(t.Key()), c.sortOf(t.Elem())
		dk, vk := c.regMap(ks, vs)
		isNil := eq(m, Term{"nil_ref", SRef})
		in := c.sc.define("inmap", and(not(isNil), sel(sel(c.get(st, dk), m, arraySort(ks, SBool)), k, SBool)))
		v := c.sc.define("mapget", ite(in, sel(sel(c.get(st, vk), m, arraySort(ks, vs)), k, vs), c.zero(t.Elem())))
		c.wellFormed(v, t.Elem())
		if x.CommaOk {
			fr.env[x] = &Val{T: []Term{v, in}}
		} else {
			fr.setVal(x, v)
		}
	case *types.Basic: // string index
		s := fr.term(x.X, st)
		i := fr.idxTerm(x.Index, st)
		fr.safetyOb("index", "", and(c.le(c.sc.idxLit(0), i), c.lt(i, c.strlen(s))), x.Pos(), "string index in range")
		fr.setVal(x, c.sc.define(x.Name(), c.strAt(s, i)))
	default:
		return fmt.Errorf("Lookup on %s", x.X.Type())
	}
	return nil
}

func (fr *Frame) execSlice(x *ssa.Slice, st *State) error {
	c := fr.c
	z := c.sc.idxLit(0)
	opt := func(v ssa.Value, def Term) Term {
		if v == nil {
			return def
		}
		return fr.idxTerm(v, st)
	}
	switch t := under(x.X.Type()).(type) {
	case *types.Slice:
		s := fr.term(x.X, st)
		lo := opt(x.Low, z)
		hi := opt(x.High, c.slLen(s))
		mx := opt(x.Max, c.slCap(s))
		fr.safetyOb("slice-bounds", "", and(c.le(z, lo), c.le(lo, hi), c.le(hi, mx), c.le(mx, c.slCap(s))), x.Pos(), "slice bounds in range")
		r := c.mkSlice(slPtr(s), c.add(c.slOff(s), lo), c.sub(hi, lo), c.sub(mx, lo))
		fr.setVal(x, c.sc.define(x.Name(), r))
	case *types.Basic: // string
		s := fr.term(x.X, st)
		lo := opt(x.Low, z)
		hi := opt(x.High, c.strlen(s))
		fr.safetyOb("slice-bounds", "", and(c.le(z, lo), c.le(lo, hi), c.le(hi, c.strlen(s))), x.Pos(), "string slice bounds in range")
		c.sc.declFun("str_sub", []Sort{SStr, c.sc.idxSort(), c.sc.idxSort()}, SStr)
		r := c.sc.define(x.Name(), mk(SStr, "str_sub", s, lo, hi))
		c.assumeG(implies(fr.reach, eq(c.strlen(r), c.sub(hi, lo))))
		c.assumeG(implies(fr.reach, c.strWF(r)))
		// whole-string slice is the identity
		c.assumeG(implies(and(eq(lo, z), eq(hi, c.strlen(s))), eq(r, s)))
		fr.setVal(x, r)
	case *types.Pointer: // pointer to array
		arr := under(t.Elem()).(*types.Array)
		base := fr.addrOf(x.X, st)
		n := c.sc.idxLit(arr.Len())
		lo := opt(x.Low, z)
		hi := opt(x.High, n)
		mx := opt(x.Max, n)
		fr.safetyOb("slice-bounds", "", and(c.le(z, lo), c.le(lo, hi), c.le(hi, mx), c.le(mx, n)), x.Pos(), "array slice bounds in range")
		var p Term
		if base.kind == rkElems && len(base.path) == 0 {
			p = base.ref
		} else {
			p = fr.materialise(base, st)
			c.unmodelled["slice of an array that is not a heap cell (aliasing with the array is lost)"] = true
		}
		r := c.mkSlice(p, lo, c.sub(hi, lo), c.sub(mx, lo))
		fr.setVal(x, c.sc.define(x.Name(), r))
	default:
		return fmt.Errorf("Slice on %s", x.X.Type())
	}
	return nil
}

func (fr *Frame) execTypeAssert(x *ssa.TypeAssert, st *State) error {
	c := fr.c
	v := fr.term(x.X, st)
	var ok, res Term
	if _, isIface := under(x.AssertedType).(*types.Interface); isIface {
		name := "implements_" + sanitize(types.TypeString(x.AssertedType, nil))
		c.sc.declFun(name, []Sort{SInt}, SBool)
		ok = and(not(eq(ifTag(v), Term{"0", SInt})), mk(SBool, name, ifTag(v)))
		// a value whose static type already implements the asserted interface
		if types.AssignableTo(x.X.Type(), x.AssertedType) {
			ok = not(eq(ifTag(v), Term{"0", SInt}))
		}
		res = v
	} else {
		tag := c.typeTag(x.AssertedType)
		ok = eq(ifTag(v), Term{fmt.Sprintf("%d", tag), SInt})
		res = c.unbox(ifVal(v), c.sortOf(x.AssertedType))
		// a value of that dynamic type is the boxing of its payload
		bx := "box_" + sortTag(c.sortOf(x.AssertedType))
		c.sc.assume(implies(ok, eq(mk(SAny, bx, res), ifVal(v))))
	}
	ok = c.sc.define("taok", ok)
	if x.CommaOk {
		r := c.sc.define(x.Name(), ite(ok, res, c.zero(x.AssertedType)))
		// a value taken out of an interface is a value of its type (0 <= len <= cap for slices, ...)
		c.wellFormed(r, x.AssertedType)
		fr.env[x] = &Val{T: []Term{r, ok}}
		return nil
	}
	fr.safetyOb("type-assert", sanitize(types.TypeString(x.AssertedType, func(p *types.Package) string { return p.Name() })), ok, x.Pos(), "unchecked type assertion to "+x.AssertedType.String())
	r := c.sc.define(x.Name(), res)
	c.wellFormed(r, x.AssertedType)
	fr.setVal(x, r)
	return nil
}

func (fr *Frame) execConvert(x *ssa.Convert, st *State) error {
	c := fr.c
	from, to := x.X.Type(), x.Type()
	v := fr.term(x.X, st)
	switch {
	case isInteger(from) && isInteger(to):
		fr.setVal(x, c.sc.define(x.Name(), c.convInt(v, from, to)))
	case isString(from) && isString(to):
		fr.setVal(x, v)
	case c.sc.ieeeFloats && isInteger(from) && isFloat64(to):
		fr.setVal(x, c.sc.define(x.Name(), c.intToFloat(v, from)))
	case c.sc.ieeeFloats && isFloat64(from) && isInteger(to):
		fr.setVal(x, c.sc.define(x.Name(), c.floatToInt(v, to)))
	case c.sc.ieeeFloats && isFloat64(from) && isFloat64(to):
		fr.setVal(x, v)
	case isString(to) && isSliceOfBytes(from):
		c.sc.declFun("bytes_to_str", []Sort{arraySort(c.sc.idxSort(), c.sortOf(types.Typ[types.Uint8])), c.sc.idxSort(), c.sc.idxSort()}, SStr)
		bs := c.sortOf(types.Typ[types.Uint8])
		arr := sel(c.get(st, c.regElem(bs)), slPtr(v), arraySort(c.sc.idxSort(), bs))
		r := c.sc.define(x.Name(), mk(SStr, "bytes_to_str", arr, c.slOff(v), c.slLen(v)))
		c.assumeG(eq(c.strlen(r), c.slLen(v)))
		c.assumeG(c.strWF(r))
		fr.setVal(x, r)
	case isString(from) && isSliceOfBytes(to):
		r := c.newRef("str2bytes")
		n := c.strlen(v)
		s := c.sc.define(x.Name(), c.mkSlice(r, c.sc.idxLit(0), n, n))
		// contents: element i is str_at(s, i)
		bs := c.sortOf(types.Typ[types.Uint8])
		k := c.regElem(bs)
		c.sc.declFun("str_bytes", []Sort{SStr}, arraySort(c.sc.idxSort(), bs))
		st.set(k, c.sc.define("elems", sto(c.get(st, k), r, mk(arraySort(c.sc.idxSort(), bs), "str_bytes", v))))
		// round trip: string([]byte(v)) == v
		c.sc.declFun("bytes_to_str", []Sort{arraySort(c.sc.idxSort(), bs), c.sc.idxSort(), c.sc.idxSort()}, SStr)
		c.assumeG(eq(mk(SStr, "bytes_to_str", mk(arraySort(c.sc.idxSort(), bs), "str_bytes", v), c.sc.idxLit(0), n), v))
		fr.setVal(x, s)
	default:
		c.unmodelled[fmt.Sprintf("conversion %s -> %s", under(from), under(to))] = true
		fr.setVal(x, c.freshOfType("conv", to))
	}
	return nil
}

// intToFloat: float64(i), rounding to nearest even.
func (c *FuncCtx) intToFloat(v Term, from types.Type) Term {
	if c.sc.mathInts {
		return Term{fmt.Sprintf("((_ to_fp 11 53) RNE (to_real %s))", v.S), SFloat}
	}
	if isUnsigned(from) {
		return Term{fmt.Sprintf("((_ to_fp_unsigned 11 53) RNE %s)", v.S), SFloat}
	}
	return Term{fmt.Sprintf("((_ to_fp 11 53) RNE %s)", v.S), SFloat}
}

// floatToInt: T(f) truncates towards zero; for a value that does not fit (or NaN) Go leaves the result
// implementation-specific and SMT-LIB leaves fp.to_sbv/fp.to_ubv unspecified: any value, in both.
func (c *FuncCtx) floatToInt(v Term, to types.Type) Term {
	if c.sc.mathInts {
		return Term{fmt.Sprintf("(to_int (fp.to_real (fp.roundToIntegral RTZ %s)))", v.S), SInt}
	}
	w := widthOf(to)
	if isUnsigned(to) {
		return Term{fmt.Sprintf("((_ fp.to_ubv %d) RTZ %s)", w, v.S), bvSort(w)}
	}
	return Term{fmt.Sprintf("((_ fp.to_sbv %d) RTZ %s)", w, v.S), bvSort(w)}
}

func isSliceOfBytes(t types.Type) bool {
	s, ok := under(t).(*types.Slice)
	if !ok {
		return false
	}
	b, ok := under(s.Elem()).(*types.Basic)
	return ok && (b.Kind() == types.Uint8 || b.Kind() == types.Int32)
}

func (c *FuncCtx) convInt(v Term, from, to types.Type) Term {
	if c.sc.mathInts {
		fw, tw := widthOf(from), widthOf(to)
		if tw > fw || (tw == fw && isUnsigned(from) == isUnsigned(to)) {
			if !isUnsigned(from) && isUnsigned(to) {
				c.assumeNote("ints math: signed->unsigned conversion treated as identity (value assumed non-negative)")
			}
			return v
		}
		if isUnsigned(to) {
			m := fmt.Sprintf("%d", uint64(1)<<uint(tw))
			if tw == 64 {
				m = "18446744073709551616"
			}
			return mk(SInt, "mod", v, Term{m, SInt})
		}
		c.assumeNote("ints math: narrowing signed conversion treated as identity (value assumed in range)")
		return v
	}
	fw, tw := widthOf(from), widthOf(to)
	switch {
	case fw == tw:
		return v
	case tw < fw:
		return mk(bvSort(tw), fmt.Sprintf("(_ extract %d 0)", tw-1), v)
	case isUnsigned(from):
		return mk(bvSort(tw), fmt.Sprintf("(_ zero_extend %d)", tw-fw), v)
	default:
		return mk(bvSort(tw), fmt.Sprintf("(_ sign_extend %d)", tw-fw), v)
	}
}

func (fr *Frame) execNext(x *ssa.Next, st *State) error {
	c := fr.c
	rng, _ := x.Iter.(*ssa.Range)
	tup := x.Type().(*types.Tuple)
	ok := c.sc.fresh("next_ok", SBool)
	r := &Val{T: []Term{ok}}
	if rng == nil {
		for i := 1; i < tup.Len(); i++ {
			r.T = append(r.T, c.freshOfType("next", tup.At(i).Type()))
		}
		fr.env[x] = r
		return nil
	}
	if mt, isMap := under(rng.X.Type()).(*types.Map); isMap && !x.IsString {
		m := fr.term(rng.X, st)
		ks, vs := c.sortOf(mt.Key()), c.sortOf(mt.Elem())
		dk, vk := c.regMap(ks, vs)
		k := c.freshOfType("range_key", mt.Key())
		// arbitrary iteration order: the key is any member of the map's domain
		c.assumeG(implies(ok, and(not(eq(m, Term{"nil_ref", SRef})), sel(sel(c.get(st, dk), m, arraySort(ks, SBool)), k, SBool))))
		// ghost set of the keys visited so far: an iteration yields a key not visited before, and the
		// range ends only when every key of the map has been visited
		if vkey, has := fr.visitedKey(rng); has && st.has(vkey) {
			seen := c.get(st, vkey)
			c.assumeG(implies(ok, not(sel(seen, k, SBool))))
			dom := sel(c.get(st, dk), m, arraySort(ks, SBool))
			c.assumeG(implies(not(ok), Term{fmt.Sprintf("(forall ((vk %s)) (=> (select %s vk) (select %s vk)))", ks, dom.S, seen.S), SBool}))
			st.set(vkey, c.sc.define("visited", ite(ok, sto(seen, k, tTrue), seen)))
		}
		v := c.sc.define("range_val", sel(sel(c.get(st, vk), m, arraySort(ks, vs)), k, vs))
		c.wellFormed(v, mt.Elem())
		r.T = append(r.T, k, v)
		fr.env[x] = r
		return nil
	}
	// string range: index and rune
	s := fr.term(rng.X, st)
	i := c.freshOfType("range_ix", types.Typ[types.Int])
	c.assumeG(implies(ok, and(c.le(c.sc.idxLit(0), i), c.lt(i, c.strlen(s)))))
	r.T = append(r.T, i, c.freshOfType("range_rune", types.Typ[types.Rune]))
	fr.env[x] = r
	return nil
}

// pseudoSink: map updates are addressable as sinks in contracts: `call mapupdate #n requires E`
// with arg(0) = map, arg(1) = key, arg(2) = value; ordinals count in source order.
// pseudoSinkKind: like pseudoSink for kinds whose ordinals are counted per kind (field stores).
func (fr *Frame) pseudoSinkKind(kind string, in ssa.Instruction, args []TV, st *State) {
	c := fr.c
	if fr.kindOrd == nil {
		fr.kindOrd = map[string]map[ssa.Instruction]int{}
	}
	if fr.kindOrd[kind] == nil {
		m := map[ssa.Instruction]int{}
		type rec struct {
			in  ssa.Instruction
			pos token.Pos
			bi  int
			ii  int
		}
		var recs []rec
		for _, b := range fr.fn.Blocks {
			for ii, i2 := range b.Instrs {
				if kind == "append" || kind == "delete" {
					if cl, ok := i2.(*ssa.Call); ok {
						if bi, ok := cl.Call.Value.(*ssa.Builtin); ok && bi.Name() == kind {
							recs = append(recs, rec{i2, i2.Pos(), b.Index, ii})
						}
					}
					continue
				}
				s2, ok := i2.(*ssa.Store)
				if !ok {
					continue
				}
				if g, ok := s2.Addr.(*ssa.Global); ok {
					if "store."+g.Name() == kind {
						recs = append(recs, rec{i2, i2.Pos(), b.Index, ii})
					}
					continue
				}
				fa, ok := s2.Addr.(*ssa.FieldAddr)
				if !ok {
					continue
				}
				stT, ok := under(fa.X.Type()).(*types.Pointer).Elem().Underlying().(*types.Struct)
				if ok && "store."+stT.Field(fa.Field).Name() == kind {
					recs = append(recs, rec{i2, i2.Pos(), b.Index, ii})
				}
			}
		}
		sort.SliceStable(recs, func(i, j int) bool {
			if recs[i].pos != recs[j].pos && recs[i].pos.IsValid() && recs[j].pos.IsValid() {
				return recs[i].pos < recs[j].pos
			}
			if recs[i].bi != recs[j].bi {
				return recs[i].bi < recs[j].bi
			}
			return recs[i].ii < recs[j].ii
		})
		for i, r := range recs {
			m[r.in] = i + 1
		}
		fr.kindOrd[kind] = m
	}
	ord := fr.kindOrd[kind][in]
	ev := &Event{did: fr.reach, block: fr.curBlock, key: kind, ord: ord, args: args}
	fr.events[fmt.Sprintf("%s#%d", kind, ord)] = ev
	for i, cl := range fr.con.Sinks {
		if normKey(cl.Callee) != kind || (cl.Ord != 0 && cl.Ord != ord) {
			continue
		}
		cl.matched = true
		ec := fr.evalCtx(st, fr.entry, in.Pos())
		ec.thisCall = ev
		ec.rangeIx = fr.currentRangeIx()
		t, err := ec.evalClause(cl.Expr)
		if err != nil {
			c.stale = append(c.stale, fmt.Sprintf("%s:%d: %v", cl.File, cl.Line, err))
			continue
		}
		fr.oblige("sink", fmt.Sprintf("%s/%s", kind, clauseLabel(cl, i)), implies(fr.reach, t), in.Pos(), "before "+kind+": "+oneLine(cl.Text))
	}
}

func (fr *Frame) pseudoSink(kind string, in ssa.Instruction, args []TV, st *State) {
	c := fr.c
	if fr.con == nil {
		return
	}
	if fr.pseudoOrd == nil {
		fr.pseudoOrd = map[ssa.Instruction]int{}
		type rec struct {
			in  ssa.Instruction
			pos token.Pos
			bi  int
			ii  int
		}
		var recs []rec
		for _, b := range fr.fn.Blocks {
			for ii, i2 := range b.Instrs {
				if _, ok := i2.(*ssa.MapUpdate); ok {
					recs = append(recs, rec{i2, i2.Pos(), b.Index, ii})
				}
			}
		}
		sort.SliceStable(recs, func(i, j int) bool {
			if recs[i].pos != recs[j].pos && recs[i].pos.IsValid() && recs[j].pos.IsValid() {
				return recs[i].pos < recs[j].pos
			}
			if recs[i].bi != recs[j].bi {
				return recs[i].bi < recs[j].bi
			}
			return recs[i].ii < recs[j].ii
		})
		for i, r := range recs {
			fr.pseudoOrd[r.in] = i + 1
		}
	}
	ord := fr.pseudoOrd[in]
	ev := &Event{did: fr.reach, block: fr.curBlock, key: kind, ord: ord, args: args}
	fr.events[fmt.Sprintf("%s#%d", kind, ord)] = ev
	for i, cl := range fr.con.Sinks {
		if normKey(cl.Callee) != kind || (cl.Ord != 0 && cl.Ord != ord) {
			continue
		}
		cl.matched = true
		ec := fr.evalCtx(st, fr.entry, in.Pos())
		ec.thisCall = ev
		ec.rangeIx = fr.currentRangeIx()
		t, err := ec.evalClause(cl.Expr)
		if err != nil {
			c.stale = append(c.stale, fmt.Sprintf("%s:%d: %v", cl.File, cl.Line, err))
			continue
		}
		fr.oblige("sink", fmt.Sprintf("%s/%s", kind, clauseLabel(cl, i)), implies(fr.reach, t), in.Pos(), "before "+kind+": "+oneLine(cl.Text))
	}
}

// visitedKey names the ghost state of a range over a map: the set of keys visited so far by loop K
// (the loop whose head holds the Next of this Range). Contracts read it as visited(K, key).
func (fr *Frame) visitedKey(rng *ssa.Range) (string, bool) {
	if rng.Referrers() == nil || fr.loops == nil {
		return "", false
	}
	for _, r := range *rng.Referrers() {
		if nx, ok := r.(*ssa.Next); ok {
			if l := fr.loops.heads[nx.Block()]; l != nil {
				return fmt.Sprintf("MS:loop%d@%d", l.ordinal, fr.frameID), true
			}
		}
	}
	return "", false
}
