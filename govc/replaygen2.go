package main

// Model-driven replay for functions whose parameters are plain data: integers, booleans, strings,
// byte slices / arrays, structs and pointers of those. The solver's model is read back through
// get-value terms built from the entry state, turned into Go literals, and the real function is
// called from an injected in-package test. Safety obligations expect a panic; postconditions are
// compiled from the contract expression to Go (quantifiers become loops over a finite candidate
// range taken from the model).

import (
	"fmt"
	"go/types"
	"os"
	"path/filepath"
	"sort"
	"strconv"
	"strings"

	"golang.org/x/tools/go/ssa"
)

const replayMaxElems = 48

type rnode struct {
	kind   string // int, bool, string, slice, array, struct, ptr
	ty     types.Type
	term   Term     // scalar value / slice header / string
	lenT   Term     // slice / string length
	elems  []*rnode // first replayMaxElems elements (slice/array), fields (struct), pointee (ptr)
	chars  []Term   // string: str_at terms
	lits   []string // string: literals to compare with
	litEqs []Term
	arrLen int64
}

type replaySpec struct {
	fn      *ssa.Function
	pkgDir  string
	pkgName string
	params  []*rnode
	names   []string
	ensures []*Clause
	ok      bool
	why     string
}

// buildReplaySpec describes how to read the function's arguments back from a model.
func (c *FuncCtx) buildReplaySpec(fr *Frame, st *State) *replaySpec {
	fn := fr.fn
	rs := &replaySpec{fn: fn, ok: true}
	if fn.Pkg == nil || fn.Parent() != nil {
		rs.ok, rs.why = false, "closures are not replayed"
		return rs
	}
	rs.pkgName = fn.Pkg.Pkg.Name()
	rs.pkgDir = "./" + strings.TrimPrefix(strings.TrimPrefix(fn.Pkg.Pkg.Path(), repoModule), "/")
	for _, p := range fn.Params {
		n := c.rnodeFor(fr.params[p.Name()].T, p.Type(), st, 0)
		if n == nil {
			rs.ok, rs.why = false, "parameter "+p.Name()+" of type "+p.Type().String()+" is not plain data"
			return rs
		}
		rs.params = append(rs.params, n)
		rs.names = append(rs.names, p.Name())
	}
	if fr.con != nil {
		rs.ensures = fr.con.Ensures
	}
	return rs
}

func (c *FuncCtx) rnodeFor(t Term, ty types.Type, st *State, depth int) *rnode {
	if depth > 3 {
		return nil
	}
	switch u := under(ty).(type) {
	case *types.Basic:
		switch {
		case u.Info()&types.IsInteger != 0:
			return &rnode{kind: "int", ty: ty, term: t}
		case u.Info()&types.IsBoolean != 0:
			return &rnode{kind: "bool", ty: ty, term: t}
		case u.Info()&types.IsString != 0:
			n := &rnode{kind: "string", ty: ty, term: t, lenT: c.strlen(t)}
			bs := c.sortOf(types.Typ[types.Uint8])
			c.sc.declFun("str_at", []Sort{SStr, c.sc.idxSort()}, bs)
			for i := 0; i < replayMaxElems; i++ {
				n.chars = append(n.chars, mk(bs, "str_at", t, c.sc.idxLit(int64(i))))
			}
			return n
		}
		return nil
	case *types.Slice:
		es := c.sortOf(u.Elem())
		arr := sel(c.get(st, c.regElem(es)), slPtr(t), arraySort(c.sc.idxSort(), es))
		n := &rnode{kind: "slice", ty: ty, term: t, lenT: c.slLen(t)}
		for i := 0; i < replayMaxElems; i++ {
			e := c.rnodeFor(sel(arr, c.add(c.slOff(t), c.sc.idxLit(int64(i))), es), u.Elem(), st, depth+1)
			if e == nil {
				return nil
			}
			n.elems = append(n.elems, e)
		}
		return n
	case *types.Array:
		if u.Len() > 256 {
			return nil
		}
		n := &rnode{kind: "array", ty: ty, arrLen: u.Len()}
		for i := int64(0); i < u.Len(); i++ {
			e := c.rnodeFor(sel(t, c.sc.idxLit(i), c.sortOf(u.Elem())), u.Elem(), st, depth+1)
			if e == nil {
				return nil
			}
			n.elems = append(n.elems, e)
		}
		return n
	case *types.Struct:
		n := &rnode{kind: "struct", ty: ty}
		for i := 0; i < u.NumFields(); i++ {
			e := c.rnodeFor(c.fieldSel(t, ty, i), u.Field(i).Type(), st, depth+1)
			if e == nil {
				return nil
			}
			n.elems = append(n.elems, e)
		}
		return n
	case *types.Pointer:
		var inner Term
		if arr, ok := under(u.Elem()).(*types.Array); ok {
			s := c.sortOf(arr.Elem())
			inner = sel(c.get(st, c.regElem(s)), t, arraySort(c.sc.idxSort(), s))
		} else {
			s := c.sortOf(u.Elem())
			inner = sel(c.get(st, c.regHeap(s)), t, s)
		}
		e := c.rnodeFor(inner, u.Elem(), st, depth+1)
		if e == nil {
			return nil
		}
		return &rnode{kind: "ptr", ty: ty, term: t, elems: []*rnode{e}}
	}
	return nil
}

func (n *rnode) collect(out *[]Term) {
	switch n.kind {
	case "int", "bool":
		*out = append(*out, n.term)
	case "string":
		*out = append(*out, n.lenT)
		*out = append(*out, n.chars...)
	case "slice":
		*out = append(*out, n.lenT)
		for _, e := range n.elems {
			e.collect(out)
		}
	case "array", "struct", "ptr":
		for _, e := range n.elems {
			e.collect(out)
		}
	}
}

// ---- model values ---------------------------------------------------------------------------

// parseGetValue parses z3/cvc5 `(get-value ...)` output into term-text -> value-text.
func parseGetValue(out string) []string {
	var res []string
	i := strings.Index(out, "((")
	if i < 0 {
		return res
	}
	s := out[i:]
	// tokenise into s-expressions
	pos := 0
	var parse func() string
	parse = func() string {
		for pos < len(s) && (s[pos] == ' ' || s[pos] == '\n' || s[pos] == '\t') {
			pos++
		}
		if pos >= len(s) {
			return ""
		}
		if s[pos] == '(' {
			depth := 0
			start := pos
			for pos < len(s) {
				if s[pos] == '(' {
					depth++
				} else if s[pos] == ')' {
					depth--
					if depth == 0 {
						pos++
						return s[start:pos]
					}
				}
				pos++
			}
			return s[start:]
		}
		start := pos
		for pos < len(s) && s[pos] != ' ' && s[pos] != '\n' && s[pos] != ')' && s[pos] != '(' {
			pos++
		}
		return s[start:pos]
	}
	// outer list
	if s[pos] != '(' {
		return res
	}
	pos++
	for pos < len(s) {
		for pos < len(s) && (s[pos] == ' ' || s[pos] == '\n') {
			pos++
		}
		if pos >= len(s) || s[pos] == ')' {
			break
		}
		if s[pos] != '(' {
			break
		}
		pos++ // pair open
		k := parse()
		v := parse()
		for pos < len(s) && s[pos] != ')' {
			pos++
		}
		pos++
		_ = k
		res = append(res, normSpace(v))
	}
	return res
}

func normSpace(s string) string { return strings.Join(strings.Fields(s), " ") }

func bvValue(v string) (uint64, int, bool) {
	switch {
	case strings.HasPrefix(v, "#x"):
		n, err := strconv.ParseUint(v[2:], 16, 64)
		return n, len(v[2:]) * 4, err == nil
	case strings.HasPrefix(v, "#b"):
		n, err := strconv.ParseUint(v[2:], 2, 64)
		return n, len(v[2:]), err == nil
	case strings.HasPrefix(v, "(_ bv"):
		f := strings.Fields(strings.Trim(v, "()"))
		if len(f) == 3 {
			n, err := strconv.ParseUint(strings.TrimPrefix(f[1], "bv"), 10, 64)
			w, _ := strconv.Atoi(f[2])
			return n, w, err == nil
		}
	}
	if n, err := strconv.ParseInt(v, 10, 64); err == nil {
		return uint64(n), 64, true
	}
	if strings.HasPrefix(v, "(- ") {
		if n, err := strconv.ParseInt(strings.TrimSuffix(strings.TrimPrefix(v, "(- "), ")"), 10, 64); err == nil {
			return uint64(-n), 64, true
		}
	}
	return 0, 0, false
}

func intLiteral(v string, ty types.Type) (string, bool) {
	n, w, ok := bvValue(v)
	if !ok {
		return "", false
	}
	if isUnsigned(ty) {
		return fmt.Sprintf("%d", n), true
	}
	// signed: interpret by width
	if w < 64 && n&(1<<uint(w-1)) != 0 {
		return fmt.Sprintf("%d", int64(n)-(int64(1)<<uint(w))), true
	}
	return fmt.Sprintf("%d", int64(n)), true
}

// goLiteral renders the model value of node n as a Go expression (in package pkg).
func (n *rnode) goLiteral(vals map[string]string, q types.Qualifier, ints *[]int64) (string, bool) {
	tyStr := types.TypeString(n.ty, q)
	get := func(t Term) (string, bool) { v, ok := vals[normSpace(t.S)]; return v, ok }
	switch n.kind {
	case "int":
		v, ok := get(n.term)
		if !ok {
			return "", false
		}
		lit, ok := intLiteral(v, n.ty)
		if !ok {
			return "", false
		}
		if x, err := strconv.ParseInt(lit, 10, 64); err == nil {
			*ints = append(*ints, x)
		}
		return fmt.Sprintf("%s(%s)", tyStr, lit), true
	case "bool":
		v, ok := get(n.term)
		return v, ok && (v == "true" || v == "false")
	case "string":
		lv, ok := get(n.lenT)
		if !ok {
			return "", false
		}
		ln, _, ok := bvValue(lv)
		if !ok || ln > replayMaxElems {
			return "", false
		}
		var bs []byte
		for i := 0; i < int(ln); i++ {
			cv, ok := get(n.chars[i])
			if !ok {
				return "", false
			}
			b, _, ok := bvValue(cv)
			if !ok {
				return "", false
			}
			bs = append(bs, byte(b))
		}
		return fmt.Sprintf("%s(%q)", tyStr, string(bs)), true
	case "slice":
		lv, ok := get(n.lenT)
		if !ok {
			return "", false
		}
		ln, _, ok := bvValue(lv)
		if !ok || ln > 1<<16 {
			return "", false
		}
		*ints = append(*ints, int64(ln))
		var parts []string
		for i := 0; i < int(ln) && i < replayMaxElems; i++ {
			e, ok := n.elems[i].goLiteral(vals, q, ints)
			if !ok {
				return "", false
			}
			parts = append(parts, e)
		}
		if int(ln) > replayMaxElems {
			// elements beyond the extracted prefix are zero
			return fmt.Sprintf("append(%s{%s}, make(%s, %d)...)", tyStr, strings.Join(parts, ", "), tyStr, int(ln)-replayMaxElems), true
		}
		return fmt.Sprintf("%s{%s}", tyStr, strings.Join(parts, ", ")), true
	case "array":
		var parts []string
		for _, e := range n.elems {
			s, ok := e.goLiteral(vals, q, ints)
			if !ok {
				return "", false
			}
			parts = append(parts, s)
		}
		return fmt.Sprintf("%s{%s}", tyStr, strings.Join(parts, ", ")), true
	case "struct":
		st := under(n.ty).(*types.Struct)
		var parts []string
		for i, e := range n.elems {
			s, ok := e.goLiteral(vals, q, ints)
			if !ok {
				return "", false
			}
			parts = append(parts, st.Field(i).Name()+": "+s)
		}
		return fmt.Sprintf("%s{%s}", tyStr, strings.Join(parts, ", ")), true
	case "ptr":
		s, ok := n.elems[0].goLiteral(vals, q, ints)
		if !ok {
			return "", false
		}
		et := types.TypeString(under(n.ty).(*types.Pointer).Elem(), q)
		return fmt.Sprintf("func() *%s { v := %s; return &v }()", et, s), true
	}
	return "", false
}

// ---- contract expression -> Go ----------------------------------------------------------------

type goTr struct {
	old    bool
	params map[string]bool
	nres   int
	ok     bool
	cands  string // name of the []int candidate slice for quantifiers
}

func (g *goTr) tr(e CExpr) string {
	switch x := e.(type) {
	case *CIdent:
		if x.Name == "result" {
			if g.nres == 1 {
				return "r0"
			}
			g.ok = false
			return "nil"
		}
		if g.old && g.params[x.Name] {
			return "old_" + x.Name
		}
		return x.Name
	case *CInt:
		return x.Text
	case *CStrL:
		return fmt.Sprintf("%q", x.Val)
	case *CBoolL:
		return fmt.Sprint(x.Val)
	case *CNil:
		return "nil"
	case *CBin:
		a, b := g.tr(x.X), g.tr(x.Y)
		switch x.Op {
		case "==>":
			return "(!(" + a + ") || (" + b + "))"
		case "<==>":
			return "((" + a + ") == (" + b + "))"
		case "in":
			g.ok = false
			return "false"
		}
		return "(" + a + " " + x.Op + " " + b + ")"
	case *CUn:
		return "(" + x.Op + g.tr(x.X) + ")"
	case *CSel:
		if id, ok := x.X.(*CIdent); ok && id.Name == "result" {
			return "r" + x.Sel
		}
		return g.tr(x.X) + "." + x.Sel
	case *CIdx:
		return g.tr(x.X) + "[" + g.tr(x.I) + "]"
	case *CCall:
		if id, ok := x.Fun.(*CIdent); ok {
			switch id.Name {
			case "old":
				saved := g.old
				g.old = true
				s := g.tr(x.Args[0])
				g.old = saved
				return s
			case "isNilIface":
				return "(" + g.tr(x.Args[0]) + " == nil)"
			case "isFresh", "typeOf":
				g.ok = false
				return "true"
			}
		}
		var as []string
		for _, a := range x.Args {
			as = append(as, g.tr(a))
		}
		return g.tr(x.Fun) + "(" + strings.Join(as, ", ") + ")"
	case *CCond:
		return "func() bool { if " + g.tr(x.C) + " { return " + g.tr(x.A) + " }; return " + g.tr(x.B) + " }()"
	case *CQuant:
		// quantifiers range over a finite candidate set derived from the model
		body := g.tr(x.Body)
		var b strings.Builder
		b.WriteString("func() bool { ")
		for _, v := range x.Vars {
			fmt.Fprintf(&b, "for _, %s_ := range %s { %s := %s(%s_); _ = %s; ", v.Name, g.cands, v.Name, v.T.String(), v.Name, v.Name)
		}
		if x.Forall {
			fmt.Fprintf(&b, "if !(%s) { return false }; ", body)
		} else {
			fmt.Fprintf(&b, "if %s { return true }; ", body)
		}
		for range x.Vars {
			b.WriteString("}; ")
		}
		if x.Forall {
			b.WriteString("return true }()")
		} else {
			b.WriteString("return false }()")
		}
		return b.String()
	case *CEvent:
		g.ok = false
		return "true"
	case *CTypeExpr:
		return x.T.String()
	}
	g.ok = false
	return "true"
}

// deepCopyExpr returns a Go expression copying a value of type ty (for old()).
func deepCopyExpr(name string, ty types.Type, q types.Qualifier) (string, bool) {
	switch u := under(ty).(type) {
	case *types.Basic, *types.Array, *types.Struct:
		return name, true
	case *types.Slice:
		if _, ok := under(u.Elem()).(*types.Slice); ok {
			return "", false
		}
		return fmt.Sprintf("append(%s(nil), %s...)", types.TypeString(ty, q), name), true
	case *types.Pointer:
		inner, ok := deepCopyExpr("(*"+name+")", u.Elem(), q)
		if !ok {
			return "", false
		}
		return fmt.Sprintf("func() %s { v := %s; return &v }()", types.TypeString(ty, q), inner), true
	}
	return "", false
}

// replayGenerated builds and runs the replay test for a failed obligation.
func replayGenerated(prop string, r *oblResult, path string) bool {
	rs := r.Fn.Replay
	appendTo := func(format string, a ...interface{}) {
		f, _ := os.OpenFile(path, os.O_APPEND|os.O_WRONLY, 0o644)
		if f != nil {
			fmt.Fprintf(f, format, a...)
			f.Close()
		}
	}
	if rs == nil || !rs.ok {
		why := "no replay specification"
		if rs != nil {
			why = rs.why
		}
		appendTo("\n--- replay ---\nnot attempted: %s\n", why)
		return false
	}
	dropQuant := false
	if r.V.Status != "sat" {
		// no model (quantified assumptions make the solvers answer "unknown" on satisfiable problems):
		// look for a candidate model of the query WITHOUT its quantified assumptions. Such a model may
		// violate a dropped assumption, so it proves nothing by itself - the replay on the real code
		// decides whether it is a failing input.
		dropQuant = true
		appendTo("\n--- replay ---\nthe solver gave no model (%s); candidate model taken from the query without its quantified assumptions\n", r.V.Status)
	}
	// ask the solver again for the values of the replay terms
	var terms []Term
	for _, p := range rs.params {
		p.collect(&terms)
	}
	o2 := *r.O
	o2.DropQuant = dropQuant
	o2.ModelOf = nil
	for i, t := range terms {
		o2.ModelOf = append(o2.ModelOf, ModelVar{fmt.Sprint(i), t})
	}
	q := r.Fn.Script.query(&o2, true)
	// prefer small models: bound every slice / string length, relaxing the bound when unsatisfiable
	var lens []Term
	var lenOf func(n *rnode)
	lenOf = func(n *rnode) {
		if n.kind == "slice" || n.kind == "string" {
			lens = append(lens, n.lenT)
		}
		if n.kind != "slice" { // elements of slices are only extracted, not bounded
			for _, e := range n.elems {
				lenOf(e)
			}
		}
	}
	for _, p := range rs.params {
		lenOf(p)
	}
	var v Verdict
	for _, bound := range []int64{16, 48, 4096, -1} {
		q2 := q
		if bound > 0 {
			var extra strings.Builder
			for _, l := range lens {
				if r.Fn.Script.mathInts {
					fmt.Fprintf(&extra, "(assert (<= %s %d))\n", l.S, bound)
				} else {
					fmt.Fprintf(&extra, "(assert (bvsle %s (_ bv%d 64)))\n", l.S, bound)
				}
			}
			q2 = strings.Replace(q, "(check-sat)", extra.String()+"(check-sat)", 1)
		}
		v = solve(q2, false, solveOpts{timeout: 20 * 1e9})
		if v.Status == "sat" {
			break
		}
	}
	if v.Status != "sat" {
		appendTo("\n--- replay ---\nnot attempted: model extraction query answered %s\n", v.Status)
		return false
	}
	ordered := parseGetValue(v.Output)
	if len(ordered) != len(terms) {
		appendTo("\n--- replay ---\nnot attempted: model extraction returned %d values for %d terms\n", len(ordered), len(terms))
		return false
	}
	vals := map[string]string{}
	for i, t := range terms {
		vals[normSpace(t.S)] = ordered[i]
	}
	usedPkgs := map[string]string{} // import path -> name, of every other package a type string mentions
	qual := func(p *types.Package) string {
		if p == rs.fn.Pkg.Pkg {
			return ""
		}
		usedPkgs[p.Path()] = p.Name()
		return p.Name()
	}
	var ints []int64
	var args []string
	for i, p := range rs.params {
		lit, ok := p.goLiteral(vals, qual, &ints)
		if !ok {
			appendTo("\n--- replay ---\nnot attempted: could not build a Go value for parameter %s from the model\nmodel values: %v\n", rs.names[i], ordered)
			return false
		}
		args = append(args, lit)
	}
	// candidate integers for quantifiers
	cset := map[int64]bool{}
	for _, x := range ints {
		for d := int64(-9); d <= 9; d++ {
			cset[x+d] = true
		}
		cset[x*8] = true
		for d := int64(0); d < 8; d++ {
			cset[x*8+d] = true
			cset[x*8-d] = true
		}
	}
	for x := int64(-2); x < 300; x++ {
		cset[x] = true
	}
	var cands []int64
	for x := range cset {
		cands = append(cands, x)
	}
	sort.Slice(cands, func(i, j int) bool { return cands[i] < cands[j] })
	var cs []string
	for _, x := range cands {
		cs = append(cs, fmt.Sprint(x))
	}
	// the call
	sig := rs.fn.Signature
	nres := sig.Results().Len()
	var lhs []string
	for i := 0; i < nres; i++ {
		lhs = append(lhs, fmt.Sprintf("r%d", i))
	}
	var call string
	if sig.Recv() != nil {
		call = fmt.Sprintf("%s.%s(%s)", rs.names[0], rs.fn.Name(), strings.Join(rs.names[1:], ", "))
	} else {
		call = fmt.Sprintf("%s(%s)", rs.fn.Name(), strings.Join(rs.names, ", "))
	}
	var b strings.Builder
	fmt.Fprintf(&b, "package %s\n\n// generated by govc from the counter-model of obligation %s\n\nimport \"testing\"\n\n", rs.pkgName, r.O.Name)
	importsAt := b.Len()
	fmt.Fprintf(&b, "func TestVerifReplayGenerated(t *testing.T) {\n\tcands := []int{%s}\n\t_ = cands\n", strings.Join(cs, ", "))
	params := map[string]bool{}
	for i, n := range rs.names {
		fmt.Fprintf(&b, "\t%s := %s\n\t_ = %s\n", n, args[i], n)
		params[n] = true
	}
	wantPost := !isSafetyKind(r.O.Kind)
	if wantPost {
		for i, n := range rs.names {
			cp, ok := deepCopyExpr(n, rs.params[i].ty, qual)
			if !ok {
				cp = n
			}
			fmt.Fprintf(&b, "\told_%s := %s\n\t_ = old_%s\n", n, cp, n)
		}
	}
	b.WriteString("\tdefer func() {\n\t\tif r := recover(); r != nil {\n\t\t\tt.Fatalf(\"VIOLATION: the real function panicked on the model's input: %v\", r)\n\t\t}\n\t}()\n")
	if nres > 0 {
		fmt.Fprintf(&b, "\t%s := %s\n", strings.Join(lhs, ", "), call)
		for _, l := range lhs {
			fmt.Fprintf(&b, "\t_ = %s\n", l)
		}
	} else {
		fmt.Fprintf(&b, "\t%s\n", call)
	}
	checked := 0
	if wantPost {
		for i, cl := range rs.ensures {
			g := &goTr{params: params, nres: nres, ok: true, cands: "cands"}
			src := g.tr(cl.Expr)
			if !g.ok {
				continue
			}
			checked++
			fmt.Fprintf(&b, "\tif !(%s) {\n\t\tt.Fatalf(\"VIOLATION: postcondition %s does not hold on the model's input\")\n\t}\n", src, clauseLabel(cl, i))
		}
	}
	b.WriteString("}\n")
	src := b.String()
	// imports for the other packages the literals mention (import path aliased to the package name used)
	if len(usedPkgs) > 0 {
		var paths []string
		for pth := range usedPkgs {
			paths = append(paths, pth)
		}
		sort.Strings(paths)
		var ib strings.Builder
		for _, pth := range paths {
			fmt.Fprintf(&ib, "import %s %q\n", usedPkgs[pth], pth)
		}
		ib.WriteString("\n")
		src = src[:importsAt] + ib.String() + src[importsAt:]
	}
	goPath := strings.TrimSuffix(path, ".txt") + "_test.go.txt"
	os.WriteFile(goPath, []byte(src), 0o644)
	if wantPost && checked == 0 {
		appendTo("\n--- replay ---\nnot attempted: no postcondition of this function could be compiled to Go\n")
		return false
	}
	failed, out := runOverlayTest(rs.pkgDir, "TestVerifReplayGenerated", goPath, "zz_verif_replay_generated_test.go")
	appendTo("\n--- replay on the real code (generated test %s, package %s) ---\nreproduced: %v\n%s\n--- generated test ---\n%s\n", filepath.Base(goPath), rs.pkgDir, failed, out, src)
	return failed
}
