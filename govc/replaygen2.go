package main

func replayGenerated(prop string, r *oblResult, path string) bool {
	return false
}
