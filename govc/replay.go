package main

import (
	"flag"
	"fmt"
	"os"
	"os/exec"
	"path/filepath"
	"sort"
	"strings"
	"time"
)

// tryReplay attempts to replay the model of a failed obligation on the real code. Returns true
// when a concrete failing input was reproduced.
func tryReplay(prop string, r *oblResult, path string) bool {
	return replayObligation(prop, r, path)
}

func cmdReplay(args []string) int {
	if len(args) < 1 {
		usage()
	}
	data, err := os.ReadFile(args[0])
	if err != nil {
		fmt.Fprintln(os.Stderr, err)
		return 2
	}
	fmt.Print(string(data))
	// a replay file that carries a Go test is re-run
	goFile := strings.TrimSuffix(args[0], ".txt") + "_test.go.txt"
	if _, err := os.Stat(goFile); err == nil {
		ok, out := runReplayTest(goFile)
		fmt.Println(out)
		if ok {
			fmt.Println("replay: the failure reproduces on the real code")
			return 1
		}
		fmt.Println("replay: the failure does not reproduce")
	}
	return 0
}

// ---------------------------------------------------------------------------------------------
// selftest: must-fail corpus

type mutant struct {
	prop   string
	path   string
	expect []string // substrings of obligation names, any of which must fail
}

func listMutants(prop string) []mutant {
	var out []mutant
	dirs, _ := filepath.Glob(filepath.Join(verifDir, "selftest", "C*"))
	sort.Strings(dirs)
	for _, d := range dirs {
		p := filepath.Base(d)
		if prop != "" && p != prop {
			continue
		}
		files, _ := filepath.Glob(filepath.Join(d, "*.patch"))
		sort.Strings(files)
		for _, f := range files {
			m := mutant{prop: p, path: f}
			data, _ := os.ReadFile(f)
			for _, l := range strings.Split(string(data), "\n") {
				if strings.HasPrefix(l, "# expect:") {
					m.expect = append(m.expect, strings.TrimSpace(strings.TrimPrefix(l, "# expect:")))
				}
			}
			out = append(out, m)
		}
	}
	return out
}

// scratchCopy copies the repository's current working tree (without .git) to a fresh directory
// outside /repo and /verif.
func scratchCopy() (string, error) {
	dir, err := os.MkdirTemp("", "govc-scratch-")
	if err != nil {
		return "", err
	}
	cmd := exec.Command("rsync", "-a", "--exclude", ".git", repoDir+"/", dir+"/")
	if out, err := cmd.CombinedOutput(); err != nil {
		os.RemoveAll(dir)
		return "", fmt.Errorf("rsync: %v: %s", err, out)
	}
	return dir, nil
}

func cmdSelftest(args []string) int {
	fs := flag.NewFlagSet("selftest", flag.ExitOnError)
	prop := fs.String("property", "", "restrict to one property")
	only := fs.String("only", "", "restrict to mutants whose file name contains this")
	verbose := fs.Bool("v", false, "verbose")
	fs.Parse(args)
	ok, _, _ := runSelftest(*prop, *only, *verbose)
	if ok {
		return 0
	}
	return 1
}

// runSelftest applies every mutant of the corpus to a scratch copy and requires a failing
// obligation. Returns ok, killed, and the lists of survived / skipped mutants.
func runSelftest(prop, only string, verbose bool) (bool, int, []string) {
	muts := listMutants(prop)
	if len(muts) == 0 {
		fmt.Println("selftest: no mutants")
		return true, 0, nil
	}
	dir, err := scratchCopy()
	if err != nil {
		fmt.Fprintln(os.Stderr, "selftest:", err)
		return false, 0, nil
	}
	defer os.RemoveAll(dir)
	savedRepo := repoDir
	defer func() { repoDir = savedRepo }()
	killed := 0
	var survived, skipped []string
	for _, m := range muts {
		if only != "" && !strings.Contains(filepath.Base(m.path), only) {
			continue
		}
		name := m.prop + "/" + filepath.Base(m.path)
		apply := exec.Command("patch", "-p1", "-s", "--no-backup-if-mismatch", "-i", m.path)
		apply.Dir = dir
		if out, err := apply.CombinedOutput(); err != nil {
			fmt.Printf("selftest: SKIPPED %s (patch does not apply to the current tree: %s)\n", name, strings.TrimSpace(string(out)))
			skipped = append(skipped, name)
			// restore whatever was partially applied
			exec.Command("rsync", "-a", "--exclude", ".git", savedRepo+"/", dir+"/").Run()
			continue
		}
		repoDir = dir
		start := time.Now()
		out, err := runCheck(m.prop, false, 10*time.Second, false)
		repoDir = savedRepo
		var failing []string
		if err != nil {
			fmt.Printf("selftest: INVALID %s (the mutated tree does not load/compile: %v)\n", name, firstLine(err.Error()))
			skipped = append(skipped, name)
			rev := exec.Command("patch", "-p1", "-R", "-s", "--no-backup-if-mismatch", "-i", m.path)
			rev.Dir = dir
			rev.Run()
			continue
		} else {
			un := readUnclaimed(m.prop)
			for _, kf := range readKnownFindings() {
				if !kf.fixed { // fails on the unchanged tree as well: not evidence that the mutant was noticed
					un[kf.obligation] = true
				}
			}
			for _, r := range out.results {
				if !r.O.Cover && r.V.Status != "unsat" && !un[r.O.Name] {
					failing = append(failing, r.O.Name+" ("+r.V.Status+")")
				}
			}
		}
		hit := len(failing) > 0
		if hit && len(m.expect) > 0 {
			hit = false
			for _, f := range failing {
				for _, e := range m.expect {
					if strings.Contains(f, e) {
						hit = true
					}
				}
			}
		}
		if hit {
			killed++
			if verbose {
				fmt.Printf("selftest: killed   %s by %s (%.1fs)\n", name, strings.Join(failing, ", "), time.Since(start).Seconds())
			}
		} else {
			fmt.Printf("selftest: SURVIVED %s (failing: %v, expected: %v)\n", name, failing, m.expect)
			survived = append(survived, name)
		}
		rev := exec.Command("patch", "-p1", "-R", "-s", "--no-backup-if-mismatch", "-i", m.path)
		rev.Dir = dir
		if out, err := rev.CombinedOutput(); err != nil {
			fmt.Printf("selftest: could not revert %s: %s\n", name, out)
			exec.Command("rsync", "-a", "--delete", "--exclude", ".git", savedRepo+"/", dir+"/").Run()
		}
	}
	fmt.Printf("selftest: %d killed, %d survived, %d skipped\n", killed, len(survived), len(skipped))
	return len(survived) == 0, killed, survived
}

func firstLine(s string) string {
	if i := strings.Index(s, "\n"); i >= 0 {
		if j := strings.Index(s[i+1:], "\n"); j >= 0 {
			return s[:i+1+j]
		}
	}
	return s
}
