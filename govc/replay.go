package main

import "fmt"

// tryReplay attempts to replay the model of a failed obligation on the real code. Returns true
// when a concrete failing input was reproduced.
func tryReplay(prop string, r *oblResult, path string) bool {
	return false
}

func cmdReplay(args []string) int {
	fmt.Println("replay: not implemented yet")
	return 2
}

func cmdSelftest(args []string) int {
	fmt.Println("selftest: not implemented yet")
	return 2
}
