package main

import (
	"go/token"
	"encoding/json"
	"flag"
	"fmt"
	"os"
	"path/filepath"
	"sort"
	"strconv"
	"strings"
	"sync"
	"time"

	"golang.org/x/tools/go/ssa"
)

var verifDir = "/verif"
var repoDir = "/repo"

func main() {
	if len(os.Args) < 2 {
		usage()
	}
	if d := os.Getenv("GOVC_VERIF"); d != "" {
		verifDir = d
	}
	if d := os.Getenv("GOVC_REPO"); d != "" {
		repoDir = d
	}
	detectSolvers()
	switch os.Args[1] {
	case "check":
		os.Exit(cmdCheck(os.Args[2:]))
	case "dump":
		os.Exit(cmdDump(os.Args[2:]))
	case "selftest":
		os.Exit(cmdSelftest(os.Args[2:]))
	case "replay":
		os.Exit(cmdReplay(os.Args[2:]))
	case "benign-writes":
		os.Exit(cmdBenignWrites())
	default:
		usage()
	}
}

func usage() {
	fmt.Fprintln(os.Stderr, "usage: govc check --property Cnn [--tier quick|thorough] [--write-baseline]\n       govc dump --func KEY [--pkg ./path] [--obligation NAME]\n       govc selftest [--property Cnn]\n       govc replay FILE")
	os.Exit(2)
}

type oblResult struct {
	O   *Obligation
	V   Verdict
	Fn  *FuncResult
	Q   string
	Sec float64
}

type checkOutcome struct {
	results   []*oblResult
	funcs     []*FuncResult
	stale     []string
	loadSecs  float64
	vcSecs    float64
	solveSecs float64
	errs      []string
}

// selectTargets returns the functions and lemmas under contract that belong to property prop
// ("" = all) in the loaded packages.
func (v *Verifier) selectTargets(prop string) (fns []*ssa.Function, cons []*Contract, lemmas []*Lemma, stale []string) {
	hasProp := func(ps []string) bool {
		if prop == "" {
			return true
		}
		for _, p := range ps {
			if p == prop {
				return true
			}
		}
		return false
	}
	loaded := map[string]bool{}
	for _, p := range v.pkgs {
		loaded[p.PkgPath] = true
	}
	var keys []string
	for k := range v.cs.ByKey {
		keys = append(keys, k)
	}
	sort.Strings(keys)
	for _, k := range keys {
		for _, con := range v.cs.ByKey[k] {
			if con.External || con.Trusted || !hasProp(con.Props) || !loaded[con.Pkg] {
				continue
			}
			// find the function
			var found *ssa.Function
			for fk, fn := range v.fnByKey {
				if fnPkgPath(fn) != con.Pkg {
					continue
				}
				for _, ck := range candidateKeys(fk, con.Pkg) {
					if normKey(ck) == k {
						found = fn
					}
				}
			}
			if found == nil {
				stale = append(stale, fmt.Sprintf("%s:%d: function under contract not found: %s", con.File, con.Line, con.Key))
				continue
			}
			fns = append(fns, found)
			cons = append(cons, con)
		}
	}
	for _, lm := range v.cs.Lemmas {
		if !lm.Axiom && hasProp(lm.Props) && (loaded[lm.Pkg] || lm.Pkg == "") {
			lemmas = append(lemmas, lm)
		}
	}
	return
}

func runCheck(prop string, thorough bool, timeout time.Duration, useCache bool) (*checkOutcome, error) {
	out := &checkOutcome{}
	checkedProperty = prop
	t0 := time.Now()
	pkgProps, err := contractPackages(repoDir)
	if err != nil {
		return nil, err
	}
	var paths []string
	for p, props := range pkgProps {
		if prop == "" {
			paths = append(paths, p)
			continue
		}
		for _, q := range props {
			if q == prop {
				paths = append(paths, p)
			}
		}
	}
	sort.Strings(paths)
	if len(paths) == 0 {
		return nil, fmt.Errorf("no contract files mention property %s", prop)
	}
	v, err := loadVerifier(repoDir, filepath.Join(verifDir, "contracts", "external"), paths)
	if err != nil {
		return nil, err
	}
	out.loadSecs = time.Since(t0).Seconds()
	t1 := time.Now()
	fns, cons, lemmas, stale := v.selectTargets(prop)
	out.stale = append(out.stale, stale...)
	type job struct {
		fn  *ssa.Function
		con *Contract
		lm  *Lemma
	}
	var jobs []job
	for i := range fns {
		jobs = append(jobs, job{fn: fns[i], con: cons[i]})
	}
	for _, lm := range lemmas {
		jobs = append(jobs, job{lm: lm})
	}
	// VC generation is sequential (shares contract "used" marks); it is fast.
	for _, j := range jobs {
		var fr *FuncResult
		if j.lm != nil {
			fr = v.verifyLemma(j.lm)
		} else {
			fr = v.verifyFunc(j.fn, j.con)
		}
		out.funcs = append(out.funcs, fr)
		out.stale = append(out.stale, fr.Stale...)
		if fr.Err != nil {
			out.errs = append(out.errs, fmt.Sprintf("%s: %v", fr.Key, fr.Err))
		}
	}
	out.vcSecs = time.Since(t1).Seconds()
	t2 := time.Now()
	opts := solveOpts{timeout: timeout, thorough: thorough}
	if useCache {
		opts.cacheDir = filepath.Join(verifDir, ".cache", "smt")
	}
	var all []*oblResult
	for _, fr := range out.funcs {
		for _, o := range fr.Obls {
			// an obligation belongs to the property if its function block does
			all = append(all, &oblResult{O: o, Fn: fr})
		}
	}
	workers := 12
	if thorough {
		workers = 5
	}
	var wg sync.WaitGroup
	ch := make(chan *oblResult)
	for w := 0; w < workers; w++ {
		wg.Add(1)
		go func() {
			defer wg.Done()
			for r := range ch {
				start := time.Now()
				r.Q = r.Fn.Script.query(r.O, true)
				r.V = solve(r.Q, r.O.Cover, opts)
				if !r.O.Cover && !thorough && r.V.Status != "unsat" && r.V.Status != "sat" {
					// undecided in the quick budget: one long attempt on all solvers
					o2 := opts
					o2.timeout = 60 * time.Second
					r.V = solve(r.Q, r.O.Cover, o2)
				}
				r.Sec = time.Since(start).Seconds()
			}
		}()
	}
	for _, r := range all {
		ch <- r
	}
	close(ch)
	wg.Wait()
	out.solveSecs = time.Since(t2).Seconds()
	out.results = all
	return out, nil
}

type knownFinding struct {
	prop, obligation, text string
	fixed                  bool
}

func readKnownFindings() []knownFinding {
	var out []knownFinding
	data, err := os.ReadFile(filepath.Join(verifDir, "known-findings.txt"))
	if err != nil {
		return nil
	}
	for _, line := range strings.Split(string(data), "\n") {
		line = strings.TrimSpace(line)
		if line == "" || strings.HasPrefix(line, "#") {
			continue
		}
		kf := knownFinding{}
		if strings.HasPrefix(line, "fixed:") {
			kf.fixed = true
			line = strings.TrimSpace(strings.TrimPrefix(line, "fixed:"))
		} else if strings.HasPrefix(line, "finding:") {
			line = strings.TrimSpace(strings.TrimPrefix(line, "finding:"))
		}
		f := strings.Fields(line)
		for _, w := range f {
			if strings.HasPrefix(w, "property=") {
				kf.prop = strings.TrimPrefix(w, "property=")
			}
			if strings.HasPrefix(w, "obligation=") {
				kf.obligation = strings.TrimPrefix(w, "obligation=")
			}
		}
		kf.text = line
		out = append(out, kf)
	}
	return out
}

func readUnclaimed(prop string) map[string]bool {
	m := map[string]bool{}
	data, err := os.ReadFile(filepath.Join(verifDir, "baseline", prop+".unclaimed"))
	if err != nil {
		return m
	}
	for _, l := range strings.Split(string(data), "\n") {
		l = strings.TrimSpace(l)
		if l != "" && !strings.HasPrefix(l, "#") {
			m[strings.SplitN(l, "\t", 2)[0]] = true
		}
	}
	return m
}

func readBaseline(prop string) (map[string]bool, bool) {
	data, err := os.ReadFile(filepath.Join(verifDir, "baseline", prop+".obligations"))
	if err != nil {
		return nil, false
	}
	m := map[string]bool{}
	for _, l := range strings.Split(string(data), "\n") {
		l = strings.TrimSpace(l)
		if l != "" && !strings.HasPrefix(l, "#") {
			m[l] = true
		}
	}
	return m, true
}

func cmdCheck(args []string) int {
	fs := flag.NewFlagSet("check", flag.ExitOnError)
	prop := fs.String("property", "", "property id (Cnn)")
	tier := fs.String("tier", "quick", "quick or thorough")
	writeBaseline := fs.Bool("write-baseline", false, "write /verif/baseline/<prop>.obligations from this run")
	verbose := fs.Bool("v", false, "verbose")
	noCache := fs.Bool("no-cache", false, "do not use the solver answer cache")
	fs.Parse(args)
	if *prop == "" {
		usage()
	}
	if t := os.Getenv("VERIF_TIER"); t == "thorough" || t == "quick" {
		if !flagWasSet(fs, "tier") {
			*tier = t
		}
	}
	seed := 0
	if s := os.Getenv("VERIF_SEED"); s != "" {
		seed, _ = strconv.Atoi(s)
	}
	thorough := *tier == "thorough"
	timeout := 10 * time.Second
	if thorough {
		timeout = 60 * time.Second
	}
	start := time.Now()
	out, err := runCheck(*prop, thorough, timeout, !*noCache && !thorough)
	if err != nil {
		fmt.Fprintf(os.Stderr, "govc: %v\n", err)
		fmt.Printf("UNDECIDED property=%s reason=%q\n", *prop, err.Error())
		return 3
	}
	baseline, haveBaseline := readBaseline(*prop)
	known := readKnownFindings()
	isKnown := func(name string) *knownFinding {
		for i := range known {
			if !known[i].fixed && known[i].prop == *prop && known[i].obligation == name {
				return &known[i]
			}
		}
		return nil
	}
	var discharged, failed, undecided, coversOK, coversBad, knownHit []*oblResult
	byName := map[string]*oblResult{}
	for _, r := range out.results {
		byName[r.O.Name] = r
		switch {
		case r.O.Cover && r.V.Status == "sat":
			coversOK = append(coversOK, r)
		case r.O.Cover:
			coversBad = append(coversBad, r)
		case r.V.Status == "unsat":
			discharged = append(discharged, r)
		case r.V.Status == "sat":
			failed = append(failed, r)
		default:
			undecided = append(undecided, r)
		}
	}
	if *verbose {
		for _, r := range out.results {
			fmt.Printf("  %-8s %-7s %6.2fs  %s\n", r.V.Status, r.V.Solver, r.Sec, r.O.Name)
		}
	}
	if *writeBaseline && (len(out.errs) > 0 || len(out.stale) > 0) {
		// a function that could not be analysed would silently lose its obligations from the baseline
		for _, e := range out.errs {
			fmt.Printf("ENGINE-ERROR property=%s %s\n", *prop, e)
		}
		for _, e := range out.stale {
			fmt.Printf("STALE-CONTRACT property=%s %s\n", *prop, e)
		}
		fmt.Printf("BASELINE-NOT-WRITTEN property=%s (engine errors or stale contracts in this run)\n", *prop)
		return 3
	}
	if *writeBaseline {
		var names []string
		for _, r := range discharged {
			names = append(names, r.O.Name)
		}
		for _, r := range coversOK {
			names = append(names, r.O.Name)
		}
		sort.Strings(names)
		os.MkdirAll(filepath.Join(verifDir, "baseline"), 0o755)
		hdr := "# obligations of " + *prop + " that discharge on the pinned tree (written by `govc check --write-baseline`, reviewed, never edited by a check)\n"
		os.WriteFile(filepath.Join(verifDir, "baseline", *prop+".obligations"), []byte(hdr+strings.Join(names, "\n")+"\n"), 0o644)
		baseline, haveBaseline = readBaseline(*prop)
		// obligations that do not discharge on the pinned tree and are not known findings: written out
		// for review; they are NOT claimed (reported as UNCLAIMED, never as discharged)
		var un []string
		for _, r := range append(append([]*oblResult{}, failed...), undecided...) {
			if isKnown(r.O.Name) == nil {
				un = append(un, r.O.Name+"\t"+r.V.Status+"\t"+r.O.Detail)
			}
		}
		sort.Strings(un)
		// a baseline rewrite must never quietly enlarge the unclaimed set: say so loudly
		prevUn := readUnclaimed(*prop)
		for _, l := range un {
			name := strings.SplitN(l, "\t", 2)[0]
			if !prevUn[name] {
				fmt.Printf("NEW-UNCLAIMED property=%s obligation=%s (was not unclaimed before this baseline rewrite: review it)\n", *prop, name)
			}
		}
		uh := "# obligations of " + *prop + " that do NOT discharge on the pinned tree and are not claimed (reviewed: each needs a contract the\n# code does not support yet or an assumption about a dependency; none is counted as proved). name<TAB>status<TAB>what\n"
		os.WriteFile(filepath.Join(verifDir, "baseline", *prop+".unclaimed"), []byte(uh+strings.Join(un, "\n")+"\n"), 0o644)
	}
	unclaimed := readUnclaimed(*prop)
	violations := 0
	exit := 0
	replayDir := filepath.Join(verifDir, "replays", *prop)
	os.MkdirAll(replayDir, 0o755)
	report := func(r *oblResult, why string) {
		path := filepath.Join(replayDir, sanitize(r.O.Name)+".txt")
		writeReplayFile(path, *prop, r, why)
		suffix := ""
		replayed := tryReplay(*prop, r, path)
		if !replayed {
			suffix = " no-failing-input-found"
		}
		fmt.Printf("VIOLATION property=%s replay=%s obligation=%s%s\n", *prop, path, r.O.Name, suffix)
		violations++
		exit = 1
	}
	var unclaimedHit []*oblResult
	for _, r := range failed {
		if kf := isKnown(r.O.Name); kf != nil {
			fmt.Printf("KNOWN-FINDING: %s\n", kf.text)
			knownHit = append(knownHit, r)
			continue
		}
		if unclaimed[r.O.Name] {
			fmt.Printf("UNCLAIMED property=%s obligation=%s status=%s (not discharged on the pinned tree either; not counted as proved)\n", *prop, r.O.Name, r.V.Status)
			unclaimedHit = append(unclaimedHit, r)
			continue
		}
		if isFrameObl(r.O) && haveBaseline {
			fmt.Printf("FRAME-LOST property=%s obligation=%s (the function's modifies-frame is not established on this tree: callers use it as an unchecked assumption, listed in the evidence)\n", *prop, r.O.Name)
			frameLost = append(frameLost, r.O.Name)
			continue
		}
		inBase := baseline[r.O.Name]
		if !inBase && isSafetyKind(r.O.Kind) && haveBaseline {
			// a new safety obligation: only a violation when the model replays on the real code
			path := filepath.Join(replayDir, sanitize(r.O.Name)+".txt")
			writeReplayFile(path, *prop, r, "new safety obligation fails")
			if tryReplay(*prop, r, path) {
				fmt.Printf("VIOLATION property=%s replay=%s obligation=%s\n", *prop, path, r.O.Name)
				violations++
				exit = 1
			} else if lost := lostCover(r.O.Func, coversBad, baseline); lost != "" {
				// the new operation can fail on inputs for which a clause of the function's contract promises a
				// normal return: that clause was exercisable on the pinned tree and no longer is
				fmt.Printf("VIOLATION property=%s replay=%s obligation=%s (cuts off %s) no-failing-input-found\n", *prop, path, r.O.Name, lost)
				violations++
				exit = 1
			} else {
				fmt.Printf("UNDECIDED-NEW property=%s obligation=%s (not in baseline; no reproducing replay)\n", *prop, r.O.Name)
			}
			continue
		}
		report(r, "obligation refuted by "+r.V.Solver)
	}
	for _, r := range undecided {
		if r.V.Status == "error" {
			fmt.Printf("ENGINE-ERROR property=%s obligation=%s every solver rejected the query: %s\n", *prop, r.O.Name, firstLine(r.V.Output))
			if exit == 0 {
				exit = 3
			}
			continue
		}
		if kf := isKnown(r.O.Name); kf != nil {
			fmt.Printf("KNOWN-FINDING: %s\n", kf.text)
			knownHit = append(knownHit, r)
			continue
		}
		if unclaimed[r.O.Name] {
			fmt.Printf("UNCLAIMED property=%s obligation=%s status=%s (not discharged on the pinned tree either; not counted as proved)\n", *prop, r.O.Name, r.V.Status)
			unclaimedHit = append(unclaimedHit, r)
			continue
		}
		if isFrameObl(r.O) && haveBaseline {
			fmt.Printf("FRAME-LOST property=%s obligation=%s status=%s (the function's modifies-frame is not established on this tree: callers use it as an unchecked assumption, listed in the evidence)\n", *prop, r.O.Name, r.V.Status)
			frameLost = append(frameLost, r.O.Name)
			continue
		}
		if baseline[r.O.Name] {
			report(r, "obligation discharged on the pinned tree is now undecided ("+r.V.Status+")")
		} else if !haveBaseline {
			fmt.Printf("UNDECIDED property=%s obligation=%s status=%s\n", *prop, r.O.Name, r.V.Status)
			if exit == 0 {
				exit = 3
			}
		} else {
			fmt.Printf("UNDECIDED-NEW property=%s obligation=%s status=%s\n", *prop, r.O.Name, r.V.Status)
		}
	}
	for _, r := range coversBad {
		fmt.Printf("VACUITY-WARNING property=%s cover=%s status=%s (%s)\n", *prop, r.O.Name, r.V.Status, r.O.Detail)
		if r.O.Name == r.O.Func+"/cover/requires#1" || strings.HasSuffix(r.O.Name, "/cover/axioms#1") {
			// contradictory preconditions / axioms: nothing this function's obligations say can be believed
			fmt.Printf("UNDECIDED property=%s reason=\"contradictory assumptions in %s\"\n", *prop, r.O.Func)
			if exit == 0 {
				exit = 3
			}
		}
	}
	for _, s := range out.stale {
		fmt.Printf("STALE-CONTRACT property=%s %s\n", *prop, s)
		if exit == 0 {
			exit = 3
		}
	}
	for _, e := range out.errs {
		fmt.Printf("ENGINE-ERROR property=%s %s\n", *prop, e)
		if exit == 0 {
			exit = 3
		}
	}
	// known findings that no longer fail are simply not printed (a fixed entry suppresses nothing)
	if haveBaseline {
		var missing []string
		for n := range baseline {
			if byName[n] == nil {
				missing = append(missing, n)
			}
		}
		sort.Strings(missing)
		for _, n := range missing {
			fmt.Printf("NOTE property=%s baseline obligation no longer generated: %s\n", *prop, n)
		}
	}
	wall := time.Since(start).Seconds()
	writeEvidence(*prop, *tier, seed, out, discharged, failed, undecided, coversOK, coversBad, knownHit, unclaimedHit, violations, wall)
	fmt.Printf("property=%s tier=%s functions=%d obligations=%d discharged=%d failed=%d undecided=%d covers=%d/%d known-findings=%d violations=%d load=%.1fs vc=%.1fs solve=%.1fs\n",
		*prop, *tier, len(out.funcs), len(discharged)+len(failed)+len(undecided), len(discharged), len(failed), len(undecided), len(coversOK), len(coversOK)+len(coversBad), len(knownHit), violations, out.loadSecs, out.vcSecs, out.solveSecs)
	return exit
}

func flagWasSet(fs *flag.FlagSet, name string) bool {
	set := false
	fs.Visit(func(f *flag.Flag) {
		if f.Name == name {
			set = true
		}
	})
	return set
}

// lostCover names a reachability obligation of fn that held on the pinned tree and fails now.
func lostCover(fn string, coversBad []*oblResult, baseline map[string]bool) string {
	for _, c := range coversBad {
		if c.O.Func == fn && baseline[c.O.Name] && c.V.Status == "unsat" {
			return c.O.Name
		}
	}
	return ""
}

// isFrameObl: an obligation that establishes a "modifies" frame (at the exit of a function or as the automatic
// loop invariant that carries it). A frame is an auxiliary lemma about memory, not a statement of any
// property: when it is lost the callers fall back to using it as an (unchecked, reported) assumption - what
// `assume-benign` says - and the run reports FRAME-LOST instead of a VIOLATION.
func isFrameObl(o *Obligation) bool {
	return o.Kind == "frame" || strings.Contains(o.Name, "/frame/")
}

var frameLost []string

func isSafetyKind(k string) bool {
	switch k {
	case "index", "slice-bounds", "nil-deref", "type-assert", "div-zero", "nil-map-write", "nil-func", "nil-invoke", "panic", "make-len", "slice-to-array", "shift-negative":
		return true
	}
	return false
}

func writeReplayFile(path, prop string, r *oblResult, why string) {
	var b strings.Builder
	fmt.Fprintf(&b, "property: %s\nobligation: %s\nkind: %s\nfunction: %s\nposition: %s\nwhat: %s\nverdict: %s (%s, %.2fs)\nreason: %s\n", prop, r.O.Name, r.O.Kind, r.O.Func, r.O.Pos, r.O.Detail, r.V.Status, r.V.Solver, r.V.Seconds, why)
	fmt.Fprintf(&b, "\n--- solver output (model values of the function's parameters) ---\n%s\n", r.V.Output)
	fmt.Fprintf(&b, "\n--- SMT query ---\n%s\n", r.Q)
	os.MkdirAll(filepath.Dir(path), 0o755)
	os.WriteFile(path, []byte(b.String()), 0o644)
}

func writeEvidence(prop, tier string, seed int, out *checkOutcome, discharged, failed, undecided, coversOK, coversBad, knownHit, unclaimedHit []*oblResult, violations int, wall float64) {
	type oblEv struct {
		Name    string  `json:"name"`
		Kind    string  `json:"kind"`
		Verdict string  `json:"verdict"`
		Solver  string  `json:"solver"`
		Seconds float64 `json:"seconds"`
		Cached  bool    `json:"cached,omitempty"`
		What    string  `json:"what,omitempty"`
	}
	var obls []oblEv
	solverTime := 0.0
	bySolver := map[string]int{}
	for _, r := range out.results {
		obls = append(obls, oblEv{r.O.Name, r.O.Kind, r.V.Status, r.V.Solver, round3(r.V.Seconds), r.V.Cached, r.O.Detail})
		solverTime += r.V.Seconds
		if r.V.Status == "unsat" || r.V.Status == "sat" {
			bySolver[r.V.Solver]++
		}
	}
	type fnEv struct {
		Function     string   `json:"function"`
		Ints         string   `json:"ints"`
		Obligations  int      `json:"obligations"`
		Trusted      []string `json:"trusted_contracts_used,omitempty"`
		Callees      []string `json:"callee_contracts_used,omitempty"`
		Uncontracted []string `json:"calls_without_contract_havoc,omitempty"`
		Unmodelled   []string `json:"unmodelled,omitempty"`
	}
	var fns []fnEv
	trusted := map[string]bool{}
	assumptions := map[string]bool{}
	for _, n := range frameLost {
		assumptions["assumed effect (frame obligation NOT discharged on this tree): "+n] = true
	}
	for _, f := range out.funcs {
		fns = append(fns, fnEv{shortKey(f.Key), f.Ints, len(f.Obls), f.Trusted, f.CalleeCons, f.Uncontracted, f.Unmodelled})
		for _, t := range f.Trusted {
			trusted["trusted contract: "+shortKey(t)] = true
		}
		for _, a := range f.Assumptions {
			assumptions[a] = true
		}
		for _, u := range f.Unmodelled {
			assumptions["unmodelled (over-approximated by fresh value + havoc): "+u] = true
		}
	}
	trusted["govc VC generator (unverified), go/ssa + go/types front end, SMT solvers z3 4.8.12 / z3 5.1.0 / cvc5 1.0"] = true
	var samples []interface{}
	for i, r := range out.results {
		if i%maxInt(1, len(out.results)/5) == 0 && len(samples) < 6 {
			samples = append(samples, map[string]interface{}{"obligation": r.O.Name, "kind": r.O.Kind, "what": r.O.Detail, "verdict": r.V.Status, "solver": r.V.Solver, "smt_bytes": len(r.Q)})
		}
	}
	if len(samples) == 0 {
		samples = append(samples, "no obligations generated")
	}
	// claimed obligations = generated obligations minus those listed as unclaimed / known findings
	nObl := len(discharged) + len(failed) + len(undecided) - len(unclaimedHit) - len(knownHit)
	var unclaimedNames []string
	for _, r := range unclaimedHit {
		unclaimedNames = append(unclaimedNames, r.O.Name+" ("+r.V.Status+"): "+r.O.Detail)
	}
	ev := map[string]interface{}{
		"property_id": prop,
		"tier":        tier,
		"seed":        seed,
		"level":       "proof",
		"coverage": map[string]interface{}{
			"obligations":                 nObl,
			"discharged":                  len(discharged),
			"failed":                      len(failed) - countIn(failed, unclaimedHit, knownHit),
			"undecided":                   len(undecided) - countIn(undecided, unclaimedHit, knownHit),
			"known_findings_hit":          len(knownHit),
			"unclaimed_not_discharged":    unclaimedNames,
			"covers_checked":              len(coversOK) + len(coversBad),
			"covers_reachable":            len(coversOK),
			"checker_cmd":                 "bin/govc check --property " + prop + " --tier " + tier,
			"trusted_base":                sortedKeys(trusted),
			"functions_under_contract":    fns,
			"obligation_list":             obls,
			"answers_by_solver":           bySolver,
			"solver_seconds_total":        round3(solverTime),
			"load_seconds":                round3(out.loadSecs),
			"vcgen_seconds":               round3(out.vcSecs),
			"samples":                     samples,
			"stale_contracts":             out.stale,
			"engine_errors":               out.errs,
			"bounded_stand_ins":           []string{},
			"evaluations":                 maxInt(1, nObl),
			"distinct_nontrivial":         maxInt(2, nObl),
			"rule":                        "one SMT query per generated obligation (distinct by name); counts are obligations, not inputs",
		},
		"assumptions": sortedKeys(assumptions),
		"wall_s":      round3(wall),
		"violations":  violations,
	}
	os.MkdirAll(filepath.Join(verifDir, "evidence"), 0o755)
	data, _ := json.MarshalIndent(ev, "", " ")
	os.WriteFile(filepath.Join(verifDir, "evidence", prop+".json"), data, 0o644)
}

func round3(f float64) float64 { return float64(int(f*1000+0.5)) / 1000 }

func maxInt(a, b int) int {
	if a > b {
		return a
	}
	return b
}

func cmdDump(args []string) int {
	fs := flag.NewFlagSet("dump", flag.ExitOnError)
	fn := fs.String("func", "", "function key (as written in the contract)")
	pkg := fs.String("pkg", "", "package pattern (./path)")
	obl := fs.String("obligation", "", "print the SMT query of this obligation")
	run := fs.Bool("solve", false, "solve every obligation")
	fs.Parse(args)
	pkgProps, _ := contractPackages(repoDir)
	var paths []string
	if *pkg != "" {
		paths = []string{*pkg}
	} else {
		for p := range pkgProps {
			paths = append(paths, p)
		}
	}
	v, err := loadVerifier(repoDir, filepath.Join(verifDir, "contracts", "external"), paths)
	if err != nil {
		fmt.Fprintln(os.Stderr, err)
		return 2
	}
	fns, cons, lemmas, stale := v.selectTargets("")
	for _, s := range stale {
		fmt.Println("STALE", s)
	}
	for i, f := range fns {
		if *fn != "" && !strings.Contains(normKey(cons[i].Key), normKey(*fn)) {
			continue
		}
		res := v.verifyFunc(f, cons[i])
		dumpResult(res, *obl, *run)
	}
	for _, lm := range lemmas {
		if *fn != "" && !strings.Contains(lm.Name, *fn) {
			continue
		}
		dumpResult(v.verifyLemma(lm), *obl, *run)
	}
	return 0
}

func dumpResult(res *FuncResult, obl string, run bool) {
	fmt.Printf("== %s  (%d obligations)\n", res.Key, len(res.Obls))
	if res.Err != nil {
		fmt.Println("   ERROR:", res.Err)
	}
	for _, s := range res.Stale {
		fmt.Println("   STALE:", s)
	}
	for _, u := range res.Uncontracted {
		fmt.Println("   no-contract:", shortKey(u))
	}
	for _, u := range res.Unmodelled {
		fmt.Println("   unmodelled:", u)
	}
	for _, o := range res.Obls {
		line := fmt.Sprintf("   %-60s %s", o.Name, o.Detail)
		if run {
			q := res.Script.query(o, true)
			v := solve(q, o.Cover, solveOpts{timeout: 10 * time.Second})
			line = fmt.Sprintf("   %-8s %-6s %5.2fs %s", v.Status, v.Solver, v.Seconds, line)
			if (v.Status == "sat") != o.Cover {
				if v.Status != "unsat" || o.Cover {
					if os.Getenv("GOVC_MODEL") != "" {
						line += "\n      " + strings.ReplaceAll(strings.TrimSpace(v.Output), "\n", "\n      ")
					}
					for _, e := range explain(res.Script, o) {
						line += "\n        " + e
					}
				}
			}
		}
		fmt.Println(line)
		if obl != "" && o.Name == obl {
			fmt.Println(res.Script.query(o, true))
		}
	}
}

func countIn(xs []*oblResult, lists ...[]*oblResult) int {
	n := 0
	for _, x := range xs {
		for _, l := range lists {
			for _, y := range l {
				if x == y {
					n++
				}
			}
		}
	}
	return n
}


// cmdBenignWrites lists the functions whose contract says assume-benign / benign although their own body
// writes through a parameter, the receiver or a captured variable (a store, a map update, append/copy
// into such a slice): an assumed frame that is false for the caller-visible memory it names.
func cmdBenignWrites() int {
	pkgProps, _ := contractPackages(repoDir)
	var paths []string
	for p := range pkgProps {
		paths = append(paths, p)
	}
	v, err := loadVerifier(repoDir, filepath.Join(verifDir, "contracts", "external"), paths)
	if err != nil {
		fmt.Fprintln(os.Stderr, err)
		return 2
	}
	fns, cons, _, _ := v.selectTargets("")
	n := 0
	for i, f := range fns {
		con := cons[i]
		if !(con.AssumeBenign || con.Benign) || f == nil || len(f.Blocks) == 0 {
			continue
		}
		var hits []string
		var rootOf func(x ssa.Value, depth int) string
		rootOf = func(x ssa.Value, depth int) string {
			if depth > 8 {
				return ""
			}
			switch y := x.(type) {
			case *ssa.Parameter:
				return "parameter " + y.Name()
			case *ssa.FreeVar:
				return "captured " + y.Name()
			case *ssa.FieldAddr:
				return rootOf(y.X, depth+1)
			case *ssa.IndexAddr:
				return rootOf(y.X, depth+1)
			case *ssa.Field:
				return rootOf(y.X, depth+1)
			case *ssa.UnOp:
				if y.Op == token.MUL {
					// a load: the value of a parameter variable (NaiveForm keeps parameters in cells)
					if a, ok := y.X.(*ssa.Alloc); ok {
						for _, r := range *a.Referrers() {
							if st, ok := r.(*ssa.Store); ok && st.Addr == a {
								if _, isPar := st.Val.(*ssa.Parameter); isPar {
									return "parameter " + a.Comment
								}
							}
						}
						return ""
					}
					return rootOf(y.X, depth+1)
				}
			case *ssa.Slice:
				return rootOf(y.X, depth+1)
			case *ssa.ChangeType:
				return rootOf(y.X, depth+1)
			}
			return ""
		}
		for _, b := range f.Blocks {
			for _, in := range b.Instrs {
				switch x := in.(type) {
				case *ssa.Store:
					if _, isAlloc := x.Addr.(*ssa.Alloc); isAlloc {
						continue
					}
					if r := rootOf(x.Addr, 0); r != "" {
						hits = append(hits, fmt.Sprintf("store through %s at %s", r, v.fset.Position(x.Pos())))
					}
				case *ssa.MapUpdate:
					if r := rootOf(x.Map, 0); r != "" {
						hits = append(hits, fmt.Sprintf("map update of %s at %s", r, v.fset.Position(x.Pos())))
					}
				}
			}
		}
		if len(hits) > 0 {
			n++
			fmt.Printf("%s (%s:%d)\n", shortKey(con.Key), con.File, con.Line)
			for _, h := range hits {
				fmt.Println("    " + h)
			}
		}
	}
	fmt.Printf("benign-writes: %d functions\n", n)
	return 0
}
