package main

// Discharging obligations: each obligation is a standalone SMT-LIB query raced on the installed
// solvers (z3-new 5.x, z3 4.8, cvc5). Answers are cached by the SHA-256 of the query text.

import (
	"bytes"
	"context"
	"crypto/sha256"
	"encoding/hex"
	"fmt"
	"os"
	"os/exec"
	"path/filepath"
	"strings"
	"sync"
	"time"
)

type Verdict struct {
	Status   string // unsat, sat, unknown, timeout, error
	Solver   string
	Seconds  float64
	Output   string
	Cached   bool
	All      map[string]string // solver -> status (thorough)
	Disagree bool
	Model    string
}

type solverSpec struct {
	name string
	args []string
}

var solverSpecs = []solverSpec{
	{"z3-new", []string{"z3-new", "-smt2", "-in"}},
	{"z3", []string{"z3", "-smt2", "-in"}},
	{"cvc5", []string{"cvc5", "--lang=smt2", "--produce-models", "-"}},
}

var availableSolvers []solverSpec

func detectSolvers() {
	for _, s := range solverSpecs {
		if _, err := exec.LookPath(s.args[0]); err == nil {
			availableSolvers = append(availableSolvers, s)
		}
	}
}

func runSolver(ctx context.Context, s solverSpec, query string, timeout time.Duration) (status string, out string, secs float64) {
	cctx, cancel := context.WithTimeout(ctx, timeout)
	defer cancel()
	args := append([]string{}, s.args[1:]...)
	switch s.name {
	case "z3", "z3-new":
		args = append([]string{fmt.Sprintf("-T:%d", int(timeout.Seconds())+1)}, args...)
	case "cvc5":
		args = append([]string{fmt.Sprintf("--tlimit=%d", timeout.Milliseconds())}, args...)
	}
	var buf bytes.Buffer
	start := time.Now()
	// a solver process that could not be started at all (fork/exec failure under load) is retried:
	// it says nothing about the query
	for attempt := 0; attempt < 4; attempt++ {
		buf.Reset()
		cmd := exec.CommandContext(cctx, s.args[0], args...)
		cmd.Stdin = strings.NewReader(query)
		cmd.Stdout = &buf
		cmd.Stderr = &buf
		err := cmd.Run()
		if err == nil || buf.Len() > 0 || cctx.Err() != nil {
			break
		}
		time.Sleep(time.Duration(200*(attempt+1)) * time.Millisecond)
	}
	secs = time.Since(start).Seconds()
	out = buf.String()
	first := strings.TrimSpace(strings.SplitN(strings.TrimSpace(out), "\n", 2)[0])
	switch first {
	case "unsat", "sat", "unknown":
		return first, out, secs
	}
	if cctx.Err() != nil || strings.Contains(out, "timeout") || strings.Contains(out, "interrupted") {
		return "timeout", out, secs
	}
	if d := os.Getenv("GOVC_ERRDIR"); d != "" {
		_ = os.MkdirAll(d, 0o755)
		sum := sha256.Sum256([]byte(query))
		_ = os.WriteFile(filepath.Join(d, s.name+"-"+hex.EncodeToString(sum[:4])+".txt"), []byte(out+"\n----\n"+query), 0o644)
	}
	return "error", out, secs
}

type solveOpts struct {
	timeout  time.Duration
	cacheDir string
	thorough bool
}

func solve(query string, cover bool, opts solveOpts) Verdict {
	sum := sha256.Sum256([]byte(query))
	h := hex.EncodeToString(sum[:])
	if opts.cacheDir != "" && !opts.thorough {
		if data, err := os.ReadFile(filepath.Join(opts.cacheDir, h)); err == nil {
			parts := strings.SplitN(string(data), "\n", 3)
			if len(parts) >= 2 && (parts[0] == "unsat" || parts[0] == "sat") {
				v := Verdict{Status: parts[0], Solver: parts[1], Cached: true}
				if len(parts) == 3 {
					v.Output = parts[2]
				}
				return v
			}
		}
	}
	v := solveUncached(query, opts)
	if opts.cacheDir != "" && (v.Status == "unsat" || v.Status == "sat") && !v.Disagree {
		_ = os.MkdirAll(opts.cacheDir, 0o755)
		_ = os.WriteFile(filepath.Join(opts.cacheDir, h), []byte(v.Status+"\n"+v.Solver+"\n"+v.Output), 0o644)
	}
	return v
}

func solveUncached(query string, opts solveOpts) Verdict {
	if len(availableSolvers) == 0 {
		return Verdict{Status: "error", Output: "no SMT solver found"}
	}
	ctx := context.Background()
	if opts.thorough {
		// all solvers to completion; disagreement is reported
		all := map[string]string{}
		var best Verdict
		var mu sync.Mutex
		var wg sync.WaitGroup
		for _, s := range availableSolvers {
			wg.Add(1)
			go func(s solverSpec) {
				defer wg.Done()
				st, out, secs := runSolver(ctx, s, query, opts.timeout)
				mu.Lock()
				defer mu.Unlock()
				all[s.name] = st
				if (st == "unsat" || st == "sat") && (best.Status == "" || secs < best.Seconds) {
					best = Verdict{Status: st, Solver: s.name, Seconds: secs, Output: out}
				}
			}(s)
		}
		wg.Wait()
		if best.Status == "" {
			best = Verdict{Status: "unknown", Output: fmt.Sprint(all)}
			for _, st := range all {
				if st == "timeout" {
					best.Status = "timeout"
				}
			}
		}
		best.All = all
		seen := map[string]bool{}
		for _, st := range all {
			if st == "sat" || st == "unsat" {
				seen[st] = true
			}
		}
		best.Disagree = len(seen) > 1
		return best
	}
	// stage 1: the fastest solver alone, short timeout
	first := availableSolvers[0]
	t1 := 3 * time.Second
	if t1 > opts.timeout {
		t1 = opts.timeout
	}
	st, out, secs := runSolver(ctx, first, query, t1)
	if st == "unsat" || st == "sat" {
		return Verdict{Status: st, Solver: first.name, Seconds: secs, Output: out}
	}
	// stage 2: race all solvers
	rctx, cancel := context.WithCancel(ctx)
	defer cancel()
	type ans struct {
		st, out, name string
		secs          float64
	}
	ch := make(chan ans, len(availableSolvers))
	for _, s := range availableSolvers {
		go func(s solverSpec) {
			st, out, secs := runSolver(rctx, s, query, opts.timeout)
			ch <- ans{st, out, s.name, secs}
		}(s)
	}
	last := Verdict{Status: "unknown"}
	errors := 0
	var firstErr string
	for range availableSolvers {
		a := <-ch
		if a.st == "error" {
			errors++
			if firstErr == "" {
				firstErr = a.name + ": " + a.out
			}
		}
		if a.st == "unsat" || a.st == "sat" {
			return Verdict{Status: a.st, Solver: a.name, Seconds: a.secs + secs, Output: a.out}
		}
		if a.st == "timeout" || last.Status == "unknown" && a.st != "error" {
			last = Verdict{Status: a.st, Solver: a.name, Seconds: a.secs + secs, Output: a.out}
		} else if last.Output == "" {
			last.Output = a.out
		}
	}
	if errors == len(availableSolvers) {
		// every back end rejected the query: a generator bug, never to be mistaken for "undecided"
		return Verdict{Status: "error", Output: firstErr}
	}
	return last
}
