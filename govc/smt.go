package main

// SMT-LIB text construction: sorts, terms, and the per-function script from which one standalone
// query per obligation is cut (prefix of the script up to the obligation + its negation).

import (
	"fmt"
	"strings"
)

type Sort string

const (
	SBool  Sort = "Bool"
	SInt   Sort = "Int"
	SRef   Sort = "Ref"
	SStr   Sort = "Str"
	SIface Sort = "Iface"
	SSlice Sort = "Slice"
	SFn    Sort = "Fn"
	SFloat Sort = "Flt"
	SAny   Sort = "Any"
)

func bvSort(w int) Sort { return Sort(fmt.Sprintf("(_ BitVec %d)", w)) }

func arraySort(k, v Sort) Sort { return Sort(fmt.Sprintf("(Array %s %s)", k, v)) }

// Term is an SMT term (text) with its sort.
type Term struct {
	S    string
	Sort Sort
}

func (t Term) String() string { return t.S }

func app(f string, args ...Term) string {
	if len(args) == 0 {
		return f
	}
	var b strings.Builder
	b.WriteString("(")
	b.WriteString(f)
	for _, a := range args {
		b.WriteString(" ")
		b.WriteString(a.S)
	}
	b.WriteString(")")
	return b.String()
}

func mk(sort Sort, f string, args ...Term) Term { return Term{app(f, args...), sort} }

var tTrue = Term{"true", SBool}
var tFalse = Term{"false", SBool}

func and(ts ...Term) Term {
	var xs []Term
	for _, t := range ts {
		if t.S == "true" {
			continue
		}
		if t.S == "false" {
			return tFalse
		}
		xs = append(xs, t)
	}
	if len(xs) == 0 {
		return tTrue
	}
	if len(xs) == 1 {
		return xs[0]
	}
	return mk(SBool, "and", xs...)
}

func or(ts ...Term) Term {
	var xs []Term
	for _, t := range ts {
		if t.S == "false" {
			continue
		}
		if t.S == "true" {
			return tTrue
		}
		xs = append(xs, t)
	}
	if len(xs) == 0 {
		return tFalse
	}
	if len(xs) == 1 {
		return xs[0]
	}
	return mk(SBool, "or", xs...)
}

func not(t Term) Term {
	if t.S == "true" {
		return tFalse
	}
	if t.S == "false" {
		return tTrue
	}
	return mk(SBool, "not", t)
}

func implies(a, b Term) Term {
	if a.S == "true" {
		return b
	}
	if a.S == "false" || b.S == "true" {
		return tTrue
	}
	return mk(SBool, "=>", a, b)
}

func eq(a, b Term) Term {
	if a.S == b.S {
		return tTrue
	}
	return mk(SBool, "=", a, b)
}

func ite(c, a, b Term) Term {
	if c.S == "true" {
		return a
	}
	if c.S == "false" {
		return b
	}
	if a.S == b.S {
		return a
	}
	return mk(a.Sort, "ite", c, a, b)
}

func sel(arr Term, idx Term, elem Sort) Term { return mk(elem, "select", arr, idx) }
func sto(arr Term, idx Term, v Term) Term   { return mk(arr.Sort, "store", arr, idx, v) }

// ---- script ---------------------------------------------------------------------------------

type lineKind int

const (
	lkDefine lineKind = iota
	lkAssume
)

type scriptLine struct {
	kind lineKind
	name string // defined name (lkDefine)
	text string
}

// Obligation is one proof obligation cut out of the script.
type Obligation struct {
	DropQuant bool // replay only: build the query without quantified assumptions (candidate models; the replay on the real code arbitrates)
	Name    string // stable name: <func>/<kind>[/<detail>]#<ordinal>
	Kind    string // ensures, requires, sink, invariant-entry, invariant-preserved, index, nil-deref, ...
	Func    string
	Props   []string
	Prefix  int    // number of script lines that precede it
	Goal    Term   // must be valid given the prefix (already includes the reach guard)
	Cover   bool   // cover obligation: expected SAT (reachability), not UNSAT
	Pos     string // source position (informational only, never part of the name)
	Detail  string
	ModelOf []ModelVar // values to read back from a model
	Bounded string     // non-empty: bounded stand-in label
	Parts   []clausePart // conjuncts (diagnostics only)
	Extra   []string     // assumptions local to this obligation (instances on its skolem constants)
}

type ModelVar struct {
	Label string
	Term  Term
}

// Script accumulates declarations and ordered lines for one function under verification.
type Script struct {
	sortDecls []string // in dependency order
	sortSeen  map[string]bool
	funDecls  []string
	funSeen   map[string]bool
	lines     []scriptLine
	obls      []*Obligation
	n         int
	strConsts map[string]Term // literal -> const
	strOrder  []string
	mathInts  bool
	nativeStr bool // strings are SMT-LIB strings (requires mathematical integers)
	ieeeFloats bool // float64 values are SMT-LIB (_ FloatingPoint 11 53) terms (`note floats ieee`)
	axioms    []string // global quantified axioms (always included)
	onAssume  func(text string)
}

func newScript(mathInts bool) *Script {
	s := &Script{sortSeen: map[string]bool{}, funSeen: map[string]bool{}, strConsts: map[string]Term{}, mathInts: mathInts}
	return s
}

func (s *Script) declSort(name string, text string) {
	if s.sortSeen[name] {
		return
	}
	s.sortSeen[name] = true
	s.sortDecls = append(s.sortDecls, text)
}

func (s *Script) declFun(name string, args []Sort, res Sort) {
	if s.funSeen[name] {
		return
	}
	s.funSeen[name] = true
	var as []string
	for _, a := range args {
		as = append(as, string(a))
	}
	s.funDecls = append(s.funDecls, fmt.Sprintf("(declare-fun %s (%s) %s)", name, strings.Join(as, " "), res))
}

func (s *Script) fresh(prefix string, sort Sort) Term {
	s.n++
	name := fmt.Sprintf("%s!%d", sanitize(prefix), s.n)
	s.declFun(name, nil, sort)
	return Term{name, sort}
}

// define introduces a named abbreviation for t (keeps terms linear in size).
func (s *Script) define(prefix string, t Term) Term {
	if isAtom(t.S) {
		return t
	}
	s.n++
	name := fmt.Sprintf("%s!%d", sanitize(prefix), s.n)
	s.lines = append(s.lines, scriptLine{lkDefine, name, fmt.Sprintf("(define-fun %s () %s %s)", name, t.Sort, t.S)})
	return Term{name, t.Sort}
}

func (s *Script) assume(t Term) {
	if t.S == "true" {
		return
	}
	s.lines = append(s.lines, scriptLine{lkAssume, "", fmt.Sprintf("(assert %s)", t.S)})
	if s.onAssume != nil {
		s.onAssume(t.S)
	}
}

func (s *Script) rawLine(text string) {
	s.lines = append(s.lines, scriptLine{lkAssume, "", text})
}

func (s *Script) oblige(o *Obligation) {
	o.Prefix = len(s.lines)
	s.obls = append(s.obls, o)
}

func isAtom(x string) bool {
	return !strings.ContainsAny(x, " (")
}

func sanitize(x string) string {
	var b strings.Builder
	for _, r := range x {
		switch {
		case r >= 'a' && r <= 'z', r >= 'A' && r <= 'Z', r >= '0' && r <= '9', r == '_', r == '.', r == '$':
			b.WriteRune(r)
		default:
			b.WriteRune('_')
		}
	}
	if b.Len() == 0 {
		return "v"
	}
	return b.String()
}

func (s *Script) strConst(lit string) Term {
	if t, ok := s.strConsts[lit]; ok {
		return t
	}
	var t Term
	if lit == "" {
		t = Term{"str_empty", SStr}
	} else {
		t = Term{fmt.Sprintf("str_%d", len(s.strConsts)), SStr}
	}
	s.strConsts[lit] = t
	s.strOrder = append(s.strOrder, lit)
	return t
}

func (s *Script) idxSort() Sort {
	if s.mathInts {
		return SInt
	}
	return bvSort(64)
}

func (s *Script) idxLit(n int64) Term {
	return s.intLit(n, 64)
}

func (s *Script) intLit(n int64, width int) Term {
	if s.mathInts {
		if n < 0 {
			return Term{fmt.Sprintf("(- %d)", -n), SInt}
		}
		return Term{fmt.Sprintf("%d", n), SInt}
	}
	var u uint64 = uint64(n)
	if width < 64 {
		u &= (1 << uint(width)) - 1
	}
	return Term{fmt.Sprintf("(_ bv%d %d)", u, width), bvSort(width)}
}

func (s *Script) uintLit(u uint64, width int) Term {
	if s.mathInts {
		return Term{fmt.Sprintf("%d", u), SInt}
	}
	if width < 64 {
		u &= (1 << uint(width)) - 1
	}
	return Term{fmt.Sprintf("(_ bv%d %d)", u, width), bvSort(width)}
}

// header renders all declarations (sorts, functions, string constants and their facts).
func (s *Script) header() string {
	var b strings.Builder
	b.WriteString("(set-option :produce-models true)\n(set-logic ALL)\n")
	if s.nativeStr {
		b.WriteString("(declare-datatypes ((Ref 0)) (((nil_ref) (mk_ref (ref_id Int)))))\n(define-sort Str () String)\n(declare-datatypes ((Fn 0)) (((nil_fn) (mk_fn (fn_id Int)))))\n(declare-datatypes ((Flt 0)) (((flt_zero) (mk_flt (flt_id Int)))))\n(declare-datatypes ((Any 0)) (((any_nil) (mk_any (any_id Int)))))\n")
		b.WriteString("(define-fun str_empty () Str \"\")\n")
	} else {
		// references, strings, function values and interface payloads are datatypes with a nullary
		// constructor for nil / "" so that zero values are SMT value terms (cvc5 needs that for
		// constant arrays) and string literals are distinct by construction
		b.WriteString("(declare-datatypes ((Ref 0)) (((nil_ref) (mk_ref (ref_id Int)))))\n(declare-datatypes ((Str 0)) (((str_empty) (mk_str (str_id Int)))))\n(declare-datatypes ((Fn 0)) (((nil_fn) (mk_fn (fn_id Int)))))\n(declare-datatypes ((Flt 0)) (((flt_zero) (mk_flt (flt_id Int)))))\n(declare-datatypes ((Any 0)) (((any_nil) (mk_any (any_id Int)))))\n")
	}
	if s.mathInts {
		for _, w := range []int{8, 16, 32, 64} {
			fmt.Fprintf(&b, "(define-sort Int_i%d () Int)\n(define-sort Int_u%d () Int)\n", w, w)
		}
	}
	if s.ieeeFloats {
		// the Flt datatype declared above is replaced: same sort name, IEEE 754 binary64 values
		hdr := b.String()
		hdr = strings.ReplaceAll(hdr, "(declare-datatypes ((Flt 0)) (((flt_zero) (mk_flt (flt_id Int)))))\n", "(define-sort Flt () (_ FloatingPoint 11 53))\n(define-fun flt_zero () Flt (_ +zero 11 53))\n")
		b.Reset()
		b.WriteString(hdr)
	}
	idx := s.idxSort()
	fmt.Fprintf(&b, "(declare-datatypes ((Slice 0)) (((mk_slice (sl_ptr Ref) (sl_off %s) (sl_len %s) (sl_cap %s)))))\n", idx, idx, idx)
	b.WriteString("(declare-datatypes ((Iface 0)) (((mk_iface (if_tag Int) (if_val Any)))))\n")
	if s.nativeStr {
		b.WriteString("(define-fun strlen ((s Str)) Int (str.len s))\n")
		b.WriteString("(define-fun str_concat ((a Str) (b Str)) Str (str.++ a b))\n")
		b.WriteString("(define-fun str_lt ((a Str) (b Str)) Bool (str.< a b))\n")
		b.WriteString("(define-fun str_at ((s Str) (i Int)) Int (str.to_code (str.at s i)))\n")
		b.WriteString("(define-fun str_sub ((s Str) (lo Int) (hi Int)) Str (str.substr s lo (- hi lo)))\n")
		b.WriteString("(define-fun pf_strings.HasPrefix ((s Str) (p Str)) Bool (str.prefixof p s))\n")
		b.WriteString("(define-fun pf_strings.HasSuffix ((s Str) (p Str)) Bool (str.suffixof p s))\n")
		b.WriteString("(define-fun pf_strings.Contains ((s Str) (p Str)) Bool (str.contains s p))\n")
		b.WriteString("(define-fun pf_strings.TrimSuffix ((s Str) (p Str)) Str (ite (str.suffixof p s) (str.substr s 0 (- (str.len s) (str.len p))) s))\n")
		b.WriteString("(define-fun pf_strings.TrimPrefix ((s Str) (p Str)) Str (ite (str.prefixof p s) (str.substr s (str.len p) (- (str.len s) (str.len p))) s))\n")
	} else {
		fmt.Fprintf(&b, "(declare-fun strlen (Str) %s)\n", idx)
	}
	for _, d := range s.sortDecls {
		b.WriteString(d)
		b.WriteString("\n")
	}
	for _, d := range s.funDecls {
		b.WriteString(d)
		b.WriteString("\n")
	}
	if s.nativeStr {
		for _, lit := range s.strOrder {
			t := s.strConsts[lit]
			if lit != "" {
				fmt.Fprintf(&b, "(define-fun %s () Str %s)\n", t.S, smtStringLit(lit))
			}
		}
		for _, a := range s.axioms {
			b.WriteString(a)
			b.WriteString("\n")
		}
		return b.String()
	}
	// string literal constants: pairwise distinct, known lengths
	for i, lit := range s.strOrder {
		t := s.strConsts[lit]
		if lit != "" {
			fmt.Fprintf(&b, "(define-fun %s () Str (mk_str %d))\n", t.S, i+1)
		}
		fmt.Fprintf(&b, "(assert (= (strlen %s) %s))\n", t.S, s.idxLit(int64(len(lit))).S)
	}
	if _, ok := s.strConsts[""]; !ok {
		fmt.Fprintf(&b, "(assert (= (strlen str_empty) %s))\n", s.idxLit(0).S)
	}
	for _, a := range s.axioms {
		b.WriteString(a)
		b.WriteString("\n")
	}
	return b.String()
}

// query renders the standalone SMT query of obligation o.
func (s *Script) query(o *Obligation, wantModel bool) string {
	var b strings.Builder
	b.WriteString(s.header())
	// cone of influence for definitions: keep only define-funs transitively referenced by
	// assumptions and the goal. Assumptions are all kept.
	needed := map[string]bool{}
	var work []string
	addRefs := func(text string) {
		for _, tok := range tokens(text) {
			if strings.Contains(tok, "!") && !needed[tok] {
				needed[tok] = true
				work = append(work, tok)
			}
		}
	}
	defs := map[string]string{}
	for i := 0; i < o.Prefix; i++ {
		l := s.lines[i]
		if l.kind == lkDefine {
			defs[l.name] = l.text
		} else {
			addRefs(l.text)
		}
	}
	addRefs(o.Goal.S)
	for _, e := range o.Extra {
		addRefs(e)
	}
	for _, mv := range o.ModelOf {
		addRefs(mv.Term.S)
	}
	for len(work) > 0 {
		n := work[len(work)-1]
		work = work[:len(work)-1]
		if d, ok := defs[n]; ok {
			addRefs(d)
		}
	}
	quantDefs := map[string]bool{}
	for i := 0; i < o.Prefix; i++ {
		l := s.lines[i]
		if l.kind == lkDefine && !needed[l.name] {
			continue
		}
		if (o.Cover || o.DropQuant) && l.kind == lkDefine && (strings.Contains(l.text, "(forall ") || strings.Contains(l.text, "(exists ") || mentionsAny(l.text, quantDefs)) {
			quantDefs[l.name] = true
		}
		if (o.Cover || o.DropQuant) && l.kind == lkAssume && (strings.Contains(l.text, "(forall ") || strings.Contains(l.text, "(exists ") || mentionsAny(l.text, quantDefs)) {
			// reachability checks are made without the quantified assumptions (solvers answer
			// "unknown" on satisfiable quantified problems); documented as a weaker vacuity guard
			continue
		}
		b.WriteString(l.text)
		b.WriteString("\n")
	}
	for _, e := range o.Extra {
		b.WriteString(e)
		b.WriteString("\n")
	}
	if o.Cover {
		fmt.Fprintf(&b, "(assert %s)\n", o.Goal.S)
	} else {
		fmt.Fprintf(&b, "(assert (not %s))\n", o.Goal.S)
	}
	b.WriteString("(check-sat)\n")
	if wantModel && len(o.ModelOf) > 0 {
		var ts []string
		for _, mv := range o.ModelOf {
			ts = append(ts, mv.Term.S)
		}
		fmt.Fprintf(&b, "(get-value (%s))\n", strings.Join(ts, " "))
	}
	return b.String()
}

func tokens(text string) []string {
	return strings.FieldsFunc(text, func(r rune) bool { return r == '(' || r == ')' || r == ' ' || r == '\n' || r == '\t' })
}

func smtStringLit(x string) string {
	var b strings.Builder
	b.WriteString("\"")
	for _, r := range x {
		switch {
		case r == '"':
			b.WriteString("\"\"")
		case r >= 0x20 && r < 0x7f && r != '\\':
			b.WriteRune(r)
		default:
			fmt.Fprintf(&b, "\\u{%x}", r)
		}
	}
	b.WriteString("\"")
	return b.String()
}

var nativeStrFuns = []string{"strlen", "str_concat", "str_lt", "str_at", "str_sub", "pf_strings.HasPrefix", "pf_strings.HasSuffix", "pf_strings.Contains", "pf_strings.TrimSuffix", "pf_strings.TrimPrefix"}

func mentionsAny(text string, names map[string]bool) bool {
	if len(names) == 0 {
		return false
	}
	for _, tok := range tokens(text) {
		if names[tok] {
			return true
		}
	}
	return false
}
