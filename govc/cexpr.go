package main

// Parser for the contract expression language: Go expression syntax extended with
// ==>, <==>, forall/exists, old(), call events (did/ret/arg), result, c ? a : b.

import (
	"fmt"
	"strconv"
	"strings"
	"unicode"
)

type CExpr interface{}

type (
	CIdent struct{ Name string }
	CInt   struct{ Text string }
	CStrL  struct{ Val string }
	CBoolL struct{ Val bool }
	CNil   struct{}
	CBin   struct {
		Op   string
		X, Y CExpr
	}
	CUn struct {
		Op string
		X  CExpr
	}
	CSel struct {
		X   CExpr
		Sel string
	}
	CIdx struct {
		X, I CExpr
	}
	CSlc struct {
		X, Lo, Hi CExpr
	}
	CCall struct {
		Fun  CExpr
		Args []CExpr
	}
	CQuant struct {
		Forall bool
		Vars   []CVar
		Body   CExpr
	}
	CAssert struct {
		X CExpr
		T *CType
	}
	CCond struct {
		C, A, B CExpr
	}
	// CEvent is a reference to a call site: did(call K #n), ret(call K #n)[.k], arg(call K #n, i), arg(i)
	CEvent struct {
		Kind   string // did, ret, arg
		Callee string // "" = the call under consideration (sink clause)
		Ord    int    // 1-based ordinal in source order; 0 = any (#*)
		Index  int    // arg index / result index (-1 = whole result)
	}
	CTypeExpr struct{ T *CType }
)

type CVar struct {
	Name string
	T    *CType
}

// CType is a syntactic type: Ptr/Slice/Array wrap Elem; Name is [pkg.]Ident.
type CType struct {
	Kind string // name, ptr, slice, array, map
	Name string
	Len  int64
	Elem *CType
	Key  *CType
}

func (t *CType) String() string {
	switch t.Kind {
	case "ptr":
		return "*" + t.Elem.String()
	case "slice":
		return "[]" + t.Elem.String()
	case "array":
		return fmt.Sprintf("[%d]%s", t.Len, t.Elem.String())
	case "map":
		return "map[" + t.Key.String() + "]" + t.Elem.String()
	}
	return t.Name
}

type tok struct {
	kind string // id, int, str, op, event, eof
	text string
	ev   *CEvent
}

type cparser struct {
	toks []tok
	pos  int
	src  string
}

func lexContract(src string) ([]tok, error) {
	var toks []tok
	i := 0
	ops := []string{"<==>", "==>", "&&", "||", "==", "!=", "<=", ">=", "<<", ">>", "&^", "::"}
	for i < len(src) {
		c := src[i]
		if c == ' ' || c == '\t' || c == '\n' {
			i++
			continue
		}
		if c == '/' && i+1 < len(src) && src[i+1] == '/' { // trailing comment
			for i < len(src) && src[i] != '\n' {
				i++
			}
			continue
		}
		if unicode.IsLetter(rune(c)) || c == '_' || c == '$' {
			j := i
			for j < len(src) && (unicode.IsLetter(rune(src[j])) || unicode.IsDigit(rune(src[j])) || src[j] == '_' || src[j] == '$' || (src[j] == '@' && c == '$')) {
				j++
			}
			word := src[i:j]
			if word == "call" && j < len(src) && src[j] == ' ' {
				// raw call-site reference up to '#'
				k := strings.IndexByte(src[j:], '#')
				if k < 0 {
					return nil, fmt.Errorf("call reference without #ordinal in %q", src)
				}
				callee := strings.TrimSpace(src[j : j+k])
				m := j + k + 1
				n := m
				for n < len(src) && (unicode.IsDigit(rune(src[n])) || src[n] == '*') {
					n++
				}
				ordText := src[m:n]
				ord := 0
				if ordText != "*" {
					v, err := strconv.Atoi(ordText)
					if err != nil {
						return nil, fmt.Errorf("bad call ordinal in %q", src)
					}
					ord = v
				}
				toks = append(toks, tok{kind: "event", ev: &CEvent{Callee: callee, Ord: ord, Index: -1}})
				i = n
				continue
			}
			toks = append(toks, tok{kind: "id", text: word})
			i = j
			continue
		}
		if unicode.IsDigit(rune(c)) {
			j := i
			for j < len(src) && (unicode.IsDigit(rune(src[j])) || unicode.IsLetter(rune(src[j])) || src[j] == '_') {
				j++
			}
			toks = append(toks, tok{kind: "int", text: src[i:j]})
			i = j
			continue
		}
		if c == '"' {
			j := i + 1
			for j < len(src) && src[j] != '"' {
				if src[j] == '\\' {
					j++
				}
				j++
			}
			if j >= len(src) {
				return nil, fmt.Errorf("unterminated string in %q", src)
			}
			v, err := strconv.Unquote(src[i : j+1])
			if err != nil {
				return nil, err
			}
			toks = append(toks, tok{kind: "str", text: v})
			i = j + 1
			continue
		}
		if c == '\'' {
			j := i + 1
			for j < len(src) && src[j] != '\'' {
				if src[j] == '\\' {
					j++
				}
				j++
			}
			v, _, _, err := strconv.UnquoteChar(src[i+1:j], '\'')
			if err != nil {
				return nil, err
			}
			toks = append(toks, tok{kind: "int", text: strconv.Itoa(int(v))})
			i = j + 1
			continue
		}
		matched := false
		for _, op := range ops {
			if strings.HasPrefix(src[i:], op) {
				toks = append(toks, tok{kind: "op", text: op})
				i += len(op)
				matched = true
				break
			}
		}
		if matched {
			continue
		}
		toks = append(toks, tok{kind: "op", text: string(c)})
		i++
	}
	toks = append(toks, tok{kind: "eof"})
	return toks, nil
}

func parseCExpr(src string) (e CExpr, err error) {
	toks, err := lexContract(src)
	if err != nil {
		return nil, err
	}
	p := &cparser{toks: toks, src: src}
	defer func() {
		if r := recover(); r != nil {
			if pe, ok := r.(parseErr); ok {
				err = fmt.Errorf("%s in %q", string(pe), src)
				return
			}
			panic(r)
		}
	}()
	e = p.expr()
	if p.peek().kind != "eof" {
		p.fail("unexpected %q", p.peek().text)
	}
	return e, nil
}

type parseErr string

func (p *cparser) fail(f string, a ...interface{}) { panic(parseErr(fmt.Sprintf(f, a...))) }
func (p *cparser) peek() tok                        { return p.toks[p.pos] }
func (p *cparser) next() tok                        { t := p.toks[p.pos]; p.pos++; return t }
func (p *cparser) isOp(s string) bool               { t := p.peek(); return t.kind == "op" && t.text == s }
func (p *cparser) isId(s string) bool               { t := p.peek(); return t.kind == "id" && t.text == s }
func (p *cparser) expectOp(s string) {
	if !p.isOp(s) {
		p.fail("expected %q, got %q", s, p.peek().text)
	}
	p.pos++
}

func (p *cparser) expr() CExpr {
	if p.isId("forall") || p.isId("exists") {
		return p.quant()
	}
	return p.iff()
}

func (p *cparser) quant() CExpr {
	q := &CQuant{Forall: p.next().text == "forall"}
	for {
		var names []string
		for {
			t := p.next()
			if t.kind != "id" {
				p.fail("expected variable name in quantifier")
			}
			names = append(names, t.text)
			if p.isOp(",") {
				p.pos++
				continue
			}
			break
		}
		ty := p.typ()
		for _, n := range names {
			q.Vars = append(q.Vars, CVar{n, ty})
		}
		if p.isOp(";") {
			p.pos++
			continue
		}
		break
	}
	p.expectOp("::")
	q.Body = p.expr()
	return q
}

func (p *cparser) typ() *CType {
	if p.isOp("*") {
		p.pos++
		return &CType{Kind: "ptr", Elem: p.typ()}
	}
	if p.isOp("[") {
		p.pos++
		if p.isOp("]") {
			p.pos++
			return &CType{Kind: "slice", Elem: p.typ()}
		}
		t := p.next()
		if t.kind != "int" {
			p.fail("expected array length")
		}
		n, _ := strconv.ParseInt(t.text, 0, 64)
		p.expectOp("]")
		return &CType{Kind: "array", Len: n, Elem: p.typ()}
	}
	t := p.next()
	if t.kind != "id" {
		p.fail("expected type, got %q", t.text)
	}
	if t.text == "map" && p.isOp("[") {
		p.pos++
		k := p.typ()
		p.expectOp("]")
		return &CType{Kind: "map", Key: k, Elem: p.typ()}
	}
	name := t.text
	for p.isOp(".") || p.isOp("/") {
		// qualified name, allowing import paths a/b/c.T
		name += p.next().text
		u := p.next()
		if u.kind != "id" {
			p.fail("bad qualified type name")
		}
		name += u.text
	}
	return &CType{Kind: "name", Name: name}
}

func (p *cparser) iff() CExpr {
	x := p.impl()
	for p.isOp("<==>") {
		p.pos++
		y := p.impl()
		x = &CBin{"<==>", x, y}
	}
	return x
}

func (p *cparser) impl() CExpr {
	x := p.cond()
	if p.isOp("==>") {
		p.pos++
		var y CExpr
		if p.isId("forall") || p.isId("exists") {
			y = p.quant()
		} else {
			y = p.impl() // right associative
		}
		return &CBin{"==>", x, y}
	}
	return x
}

func (p *cparser) cond() CExpr {
	c := p.lor()
	if p.isOp("?") {
		p.pos++
		a := p.cond()
		p.expectOp(":")
		b := p.cond()
		return &CCond{c, a, b}
	}
	return c
}

func (p *cparser) lor() CExpr {
	x := p.land()
	for p.isOp("||") {
		p.pos++
		x = &CBin{"||", x, p.land()}
	}
	return x
}

func (p *cparser) land() CExpr {
	x := p.cmp()
	for p.isOp("&&") {
		p.pos++
		var y CExpr
		if p.isId("forall") || p.isId("exists") {
			y = p.quant()
		} else {
			y = p.cmp()
		}
		x = &CBin{"&&", x, y}
	}
	return x
}

func (p *cparser) cmp() CExpr {
	x := p.add()
	for {
		t := p.peek()
		if t.kind == "op" && (t.text == "==" || t.text == "!=" || t.text == "<" || t.text == "<=" || t.text == ">" || t.text == ">=") {
			p.pos++
			x = &CBin{t.text, x, p.add()}
			continue
		}
		if t.kind == "id" && t.text == "in" {
			p.pos++
			x = &CBin{"in", x, p.add()}
			continue
		}
		return x
	}
}

func (p *cparser) add() CExpr {
	x := p.mul()
	for {
		t := p.peek()
		if t.kind == "op" && (t.text == "+" || t.text == "-" || t.text == "|" || t.text == "^") {
			p.pos++
			x = &CBin{t.text, x, p.mul()}
			continue
		}
		return x
	}
}

func (p *cparser) mul() CExpr {
	x := p.unary()
	for {
		t := p.peek()
		if t.kind == "op" && (t.text == "*" || t.text == "/" || t.text == "%" || t.text == "<<" || t.text == ">>" || t.text == "&" || t.text == "&^") {
			p.pos++
			x = &CBin{t.text, x, p.unary()}
			continue
		}
		return x
	}
}

func (p *cparser) unary() CExpr {
	t := p.peek()
	if t.kind == "op" && (t.text == "!" || t.text == "-" || t.text == "*" || t.text == "^" || t.text == "&") {
		p.pos++
		return &CUn{t.text, p.unary()}
	}
	return p.postfix(p.primary())
}

func (p *cparser) primary() CExpr {
	t := p.next()
	switch t.kind {
	case "int":
		return &CInt{t.text}
	case "str":
		return &CStrL{t.text}
	case "id":
		switch t.text {
		case "true":
			return &CBoolL{true}
		case "false":
			return &CBoolL{false}
		case "nil":
			return &CNil{}
		case "did", "ret", "arg":
			if p.isOp("(") {
				return p.event(t.text)
			}
		case "forall", "exists":
			p.pos--
			return p.quant()
		case "map":
			if p.isOp("[") { // a map type in expression position (typeOf(x) == map[K]V)
				p.pos--
				return &CTypeExpr{p.typ()}
			}
		}
		return &CIdent{t.text}
	case "op":
		if t.text == "(" {
			e := p.expr()
			p.expectOp(")")
			return e
		}
		if t.text == "[" { // []T(x) conversion
			p.pos--
			ty := p.typ()
			if !p.isOp("(") { // a slice / array type in expression position (typeOf(x) == []T)
				return &CTypeExpr{ty}
			}
			p.expectOp("(")
			x := p.expr()
			p.expectOp(")")
			return &CCall{Fun: &CTypeExpr{ty}, Args: []CExpr{x}}
		}
	}
	p.fail("unexpected token %q", t.text)
	return nil
}

func (p *cparser) event(kind string) CExpr {
	p.expectOp("(")
	ev := &CEvent{Kind: kind, Index: -1}
	if p.peek().kind == "event" {
		e := p.next().ev
		ev.Callee, ev.Ord = e.Callee, e.Ord
		if p.isOp(",") {
			p.pos++
			t := p.next()
			if t.kind != "int" {
				p.fail("expected index in %s(...)", kind)
			}
			ev.Index, _ = strconv.Atoi(t.text)
		}
	} else if kind == "arg" {
		t := p.next()
		if t.kind != "int" {
			p.fail("expected index in arg(...)")
		}
		ev.Index, _ = strconv.Atoi(t.text)
	} else if kind == "ret" && p.isOp(")") {
		// ret() = result of the call under consideration
	} else {
		p.fail("expected call reference in %s(...)", kind)
	}
	p.expectOp(")")
	if kind == "arg" && ev.Index < 0 {
		p.fail("arg(...) needs an index")
	}
	return ev
}

func (p *cparser) postfix(x CExpr) CExpr {
	for {
		switch {
		case p.isOp("."):
			p.pos++
			if p.isOp("(") { // type assertion
				p.pos++
				ty := p.typ()
				p.expectOp(")")
				x = &CAssert{x, ty}
				continue
			}
			t := p.next()
			if t.kind == "int" { // result.0 / ret(...).1
				x = &CSel{x, t.text}
				continue
			}
			if t.kind != "id" {
				p.fail("expected selector")
			}
			x = &CSel{x, t.text}
		case p.isOp("["):
			p.pos++
			var lo, hi CExpr
			if !p.isOp(":") {
				lo = p.expr()
			}
			if p.isOp(":") {
				p.pos++
				if !p.isOp("]") {
					hi = p.expr()
				}
				p.expectOp("]")
				x = &CSlc{x, lo, hi}
			} else {
				p.expectOp("]")
				x = &CIdx{x, lo}
			}
		case p.isOp("("):
			p.pos++
			var args []CExpr
			for !p.isOp(")") {
				args = append(args, p.expr())
				if p.isOp(",") {
					p.pos++
				}
			}
			p.expectOp(")")
			x = &CCall{Fun: x, Args: args}
		default:
			return x
		}
	}
}
