package main

// Evaluation of contract expressions to SMT terms against a symbolic state.

import (
	"fmt"
	"go/constant"
	"go/token"
	"go/types"
	"math/big"
	"sort"
	"strconv"
	"strings"

	"golang.org/x/tools/go/ssa"
)

type TV struct {
	T     Term
	Ty    types.Type
	Const *big.Int // untyped integer constant
	IsNil bool
	Tuple []TV
	Tag   bool // T is a dynamic-type tag (Int)
}

type evalCtx struct {
	c        *FuncCtx
	st, old  *State
	bind     map[string]TV
	pkgPath  string
	fr       *Frame // frame whose locals are visible
	callerFr *Frame
	pos      token.Pos
	thisCall *Event
	rangeIx  string
	hoEvents map[string]*Event
	entryPar bool // parameters denote their entry values (ensures)
	binders  int  // >0: under a quantifier / definition: no script-level definitions
	localsSt *State // inside old(): local variables keep their current values
}

func (fr *Frame) evalCtx(st, old *State, pos token.Pos) *evalCtx {
	return &evalCtx{c: fr.c, st: st, old: old, bind: fr.bind, pkgPath: fnPkgPath(fr.fn), fr: fr, pos: pos}
}

func (ec *evalCtx) sub() *evalCtx {
	n := *ec
	n.bind = map[string]TV{}
	for k, v := range ec.bind {
		n.bind[k] = v
	}
	return &n
}

func (ec *evalCtx) def(prefix string, t Term) Term {
	if ec.binders > 0 {
		return t
	}
	return ec.c.sc.define(prefix, t)
}

func (ec *evalCtx) evalBool(e CExpr) (Term, error) {
	tv, err := ec.eval(e)
	if err != nil {
		return Term{}, err
	}
	if tv.T.Sort != SBool {
		return Term{}, fmt.Errorf("expression is not boolean (sort %s)", tv.T.Sort)
	}
	return tv.T, nil
}

func (ec *evalCtx) pkg() *types.Package {
	return ec.c.v.typesPkg(ec.pkgPath)
}

// concretise turns an untyped constant into a value of type ty.
func (ec *evalCtx) concretise(tv TV, ty types.Type) TV {
	c := ec.c
	if tv.Const != nil {
		if c.sc.ieeeFloats && isFloat64(ty) {
			f, _ := new(big.Float).SetInt(tv.Const).Float64()
			return TV{T: fpLit(f), Ty: ty}
		}
		if !isInteger(ty) {
			ty = types.Typ[types.Int]
		}
		w := widthOf(ty)
		if c.sc.mathInts {
			s := tv.Const.String()
			if tv.Const.Sign() < 0 {
				s = "(- " + new(big.Int).Neg(tv.Const).String() + ")"
			}
			return TV{T: Term{s, SInt}, Ty: ty}
		}
		m := new(big.Int).Lsh(big.NewInt(1), uint(w))
		v := new(big.Int).Mod(tv.Const, m)
		return TV{T: Term{fmt.Sprintf("(_ bv%s %d)", v.String(), w), bvSort(w)}, Ty: ty}
	}
	if tv.IsNil {
		return TV{T: c.zero(ty), Ty: ty}
	}
	return tv
}

func (ec *evalCtx) eval(e CExpr) (TV, error) {
	c := ec.c
	switch x := e.(type) {
	case *CBoolL:
		if x.Val {
			return TV{T: tTrue, Ty: types.Typ[types.Bool]}, nil
		}
		return TV{T: tFalse, Ty: types.Typ[types.Bool]}, nil
	case *CInt:
		n, ok := new(big.Int).SetString(strings.ReplaceAll(x.Text, "_", ""), 0)
		if !ok {
			return TV{}, fmt.Errorf("bad integer literal %q", x.Text)
		}
		return TV{Const: n}, nil
	case *CStrL:
		return TV{T: c.sc.strConst(x.Val), Ty: types.Typ[types.String]}, nil
	case *CNil:
		return TV{IsNil: true}, nil
	case *CIdent:
		return ec.ident(x.Name)
	case *CSel:
		return ec.selector(x)
	case *CIdx:
		return ec.index(x)
	case *CCall:
		return ec.call(x)
	case *CUn:
		return ec.unary(x)
	case *CBin:
		return ec.binary(x)
	case *CCond:
		ct, err := ec.evalBool(x.C)
		if err != nil {
			return TV{}, err
		}
		a, err := ec.eval(x.A)
		if err != nil {
			return TV{}, err
		}
		b, err := ec.eval(x.B)
		if err != nil {
			return TV{}, err
		}
		a, b = ec.unify(a, b)
		return TV{T: ite(ct, a.T, b.T), Ty: a.Ty}, nil
	case *CQuant:
		return ec.quant(x)
	case *CEvent:
		return ec.event(x)
	case *CAssert:
		v, err := ec.eval(x.X)
		if err != nil {
			return TV{}, err
		}
		ty, err := ec.resolveType(x.T)
		if err != nil {
			return TV{}, err
		}
		if _, isIface := under(ty).(*types.Interface); isIface {
			return TV{T: v.T, Ty: ty}, nil
		}
		return TV{T: c.unbox(ifVal(v.T), c.sortOf(ty)), Ty: ty}, nil
	case *CSlc:
		return TV{}, fmt.Errorf("slice expressions are not supported in contracts")
	case *CTypeExpr:
		ty, err := ec.resolveType(x.T)
		if err != nil {
			return TV{}, err
		}
		return TV{T: Term{fmt.Sprintf("%d", c.typeTag(ty)), SInt}, Tag: true, Ty: ty}, nil
	}
	return TV{}, fmt.Errorf("unsupported contract expression %T", e)
}

func (ec *evalCtx) unify(a, b TV) (TV, TV) {
	switch {
	case a.Const != nil && b.Const != nil:
		return ec.concretise(a, types.Typ[types.Int]), ec.concretise(b, types.Typ[types.Int])
	case a.Const != nil || a.IsNil:
		return ec.concretise(a, b.Ty), b
	case b.Const != nil || b.IsNil:
		return a, ec.concretise(b, a.Ty)
	}
	return a, b
}

func (ec *evalCtx) ident(name string) (TV, error) {
	c := ec.c
	if tv, ok := ec.bind[name]; ok {
		return tv, nil
	}
	if (strings.HasPrefix(name, "$done@") || strings.HasPrefix(name, "$iter@")) && ec.fr != nil {
		// $done@callee / $iter@callee: the loop named by a call in its body
		name = fmt.Sprintf("%s%d", name[:5], ec.fr.anchorOrdinal(name[6:]))
	}
	if strings.HasPrefix(name, "$done") && ec.fr != nil {
		key := fmt.Sprintf("X:loop%s@%d", strings.TrimPrefix(name, "$done"), ec.fr.frameID)
		if !ec.st.has(key) {
			// a loop that does not (or no longer) exist never ran to completion
			return TV{T: tFalse, Ty: types.Typ[types.Bool]}, nil
		}
		return TV{T: c.get(ec.st, key), Ty: types.Typ[types.Bool]}, nil
	}
	if strings.HasPrefix(name, "$iter") && ec.fr != nil {
		// $iterK: in an unrolled loop K the index of the current iteration; after it the number of
		// iterations completed when the loop was left through its head
		key := fmt.Sprintf("U:loop%s@%d", strings.TrimPrefix(name, "$iter"), ec.fr.frameID)
		if !ec.st.has(key) {
			// the loop has not been reached on this path
			return TV{T: c.sc.idxLit(-1), Ty: types.Typ[types.Int]}, nil
		}
		return TV{T: c.get(ec.st, key), Ty: types.Typ[types.Int]}, nil
	}
	if name == "$i" {
		if ec.rangeIx == "" {
			return TV{}, fmt.Errorf("$i used outside a range-over-index loop")
		}
		cur := c.get(ec.st, ec.rangeIx)
		return TV{T: c.add(cur, c.sc.intLit(1, 64)), Ty: types.Typ[types.Int]}, nil
	}
	if ec.fr != nil {
		for f := ec.fr; f != nil; f = f.parent {
			if tv, ok, err := ec.frameVar(f, name); ok || err != nil {
				return tv, err
			}
			if f.fn.Parent() == nil {
				break
			}
			// closures see the variables of the enclosing function only through free variables
			for _, fv := range f.fn.FreeVars {
				if fv.Name() == name {
					v := f.env[fv]
					if v == nil {
						break
					}
					elem := fv.Type().(*types.Pointer).Elem()
					var l *LVal
					if v.L != nil {
						l = v.L
					} else {
						l = c.ptrLVal(v.T[0], elem)
					}
					st := ec.st
					return TV{T: f.read(l, st), Ty: elem}, nil
				}
			}
			break
		}
	}
	if g := c.v.ghost(ec.pkgPath, name); g != nil && len(g.Params) == 0 && g.Define == nil {
		ty, err := ec.resolveType(g.Result)
		if err != nil {
			return TV{}, err
		}
		key := "ghost:" + name
		c.registerKey(key, c.sortOf(ty), false)
		return TV{T: c.get(ec.st, key), Ty: ty}, nil
	}
	if p := ec.pkg(); p != nil {
		if obj := p.Scope().Lookup(name); obj != nil {
			return ec.object(obj)
		}
	}
	if obj := types.Universe.Lookup(name); obj != nil {
		if k, ok := obj.(*types.Const); ok {
			return ec.constObj(k)
		}
		if tn, ok := obj.(*types.TypeName); ok {
			return TV{T: Term{fmt.Sprintf("%d", c.typeTag(tn.Type())), SInt}, Tag: true, Ty: tn.Type()}, nil
		}
	}
	return TV{}, fmt.Errorf("unknown identifier %q", name)
}

// frameVar resolves a parameter, named result or local variable of frame f.
func (ec *evalCtx) frameVar(f *Frame, name string) (TV, bool, error) {
	c := ec.c
	if ec.entryPar {
		if tv, ok := f.params[name]; ok {
			return tv, true, nil
		}
	}
	var cands []*ssa.Alloc
	for _, b := range f.fn.Blocks {
		for _, in := range b.Instrs {
			if a, ok := in.(*ssa.Alloc); ok && a.Comment == name {
				cands = append(cands, a)
			}
		}
	}
	if len(cands) == 0 {
		if tv, ok := f.params[name]; ok {
			return tv, true, nil
		}
		return TV{}, false, nil
	}
	pick := cands[0]
	if len(cands) > 1 {
		// disambiguate by lexical scope at the position of interest
		var chosen *ssa.Alloc
		if p := c.v.typesPkg(fnPkgPath(f.fn)); p != nil && ec.pos.IsValid() {
			if sc := p.Scope().Innermost(ec.pos); sc != nil {
				if _, obj := sc.LookupParent(name, ec.pos); obj != nil {
					for _, a := range cands {
						if a.Pos() == obj.Pos() {
							chosen = a
						}
					}
				}
			}
		}
		if chosen == nil {
			// fall back: the candidate that is live in the state (last one defined)
			for _, a := range cands {
				if f.heapCell[a] {
					if _, ok := f.env[a]; ok {
						chosen = a
					}
				} else if ec.st.has(f.cellKey(a)) || (ec.localsSt != nil && ec.localsSt.has(f.cellKey(a))) {
					chosen = a
				}
			}
		}
		if chosen == nil {
			return TV{}, true, fmt.Errorf("ambiguous local %q", name)
		}
		pick = chosen
	}
	elem := pick.Type().(*types.Pointer).Elem()
	if f.heapCell[pick] {
		v, ok := f.env[pick]
		if !ok {
			return TV{}, true, fmt.Errorf("local %q is not in scope here", name)
		}
		l := c.ptrLVal(v.T[0], elem)
		return TV{T: f.read(l, ec.st), Ty: elem}, true, nil
	}
	key := f.cellKey(pick)
	lst := ec.st
	if ec.localsSt != nil {
		lst = ec.localsSt // old(e): locals are not part of the pre-state
	}
	if !lst.has(key) {
		return TV{}, true, fmt.Errorf("local %q is not in scope here", name)
	}
	return TV{T: c.get(lst, key), Ty: elem}, true, nil
}

func (ec *evalCtx) object(obj types.Object) (TV, error) {
	c := ec.c
	switch o := obj.(type) {
	case *types.Const:
		return ec.constObj(o)
	case *types.Var:
		// package-level variable
		if o.Pkg() != nil {
			if sp := c.v.prog.Package(o.Pkg()); sp != nil {
				if g, ok := sp.Members[o.Name()].(*ssa.Global); ok {
					l := c.globalLVal(g)
					return TV{T: c.get(ec.st, l.key), Ty: l.typ}, nil
				}
			}
			// package known only by types (dependency without SSA): a constant-like global
			key := "G:" + o.Pkg().Path() + "." + o.Name()
			c.registerKey(key, c.sortOf(o.Type()), true)
			return TV{T: c.get(ec.st, key), Ty: o.Type()}, nil
		}
	case *types.TypeName:
		return TV{T: Term{fmt.Sprintf("%d", c.typeTag(o.Type())), SInt}, Tag: true, Ty: o.Type()}, nil
	case *types.Func:
		// a package-level function used as a value (compared with a function-typed variable)
		if fn := c.v.prog.FuncValue(o); fn != nil {
			return TV{T: c.fnConst(fn), Ty: o.Type()}, nil
		}
	}
	return TV{}, fmt.Errorf("object %s cannot be used in a contract expression", obj)
}

func (ec *evalCtx) constObj(k *types.Const) (TV, error) {
	c := ec.c
	ty := k.Type()
	b, _ := under(ty).(*types.Basic)
	switch {
	case b != nil && b.Info()&types.IsBoolean != 0:
		if constant.BoolVal(k.Val()) {
			return TV{T: tTrue, Ty: ty}, nil
		}
		return TV{T: tFalse, Ty: ty}, nil
	case b != nil && b.Info()&types.IsString != 0:
		return TV{T: c.sc.strConst(constant.StringVal(k.Val())), Ty: ty}, nil
	case b != nil && b.Info()&types.IsInteger != 0:
		n, ok := new(big.Int).SetString(constant.ToInt(k.Val()).ExactString(), 10)
		if !ok {
			return TV{}, fmt.Errorf("constant %s is not an integer", k.Name())
		}
		if b.Info()&types.IsUntyped != 0 {
			return TV{Const: n}, nil
		}
		return ec.concretise(TV{Const: n}, ty), nil
	}
	return TV{}, fmt.Errorf("constant %s of unsupported type %s", k.Name(), ty)
}

// deref reads the value a pointer points to.
func (ec *evalCtx) deref(p TV) (TV, error) {
	pt, ok := under(p.Ty).(*types.Pointer)
	if !ok {
		return TV{}, fmt.Errorf("dereference of non-pointer %s", p.Ty)
	}
	c := ec.c
	elem := pt.Elem()
	if arr, ok := under(elem).(*types.Array); ok {
		s := c.sortOf(arr.Elem())
		return TV{T: sel(c.get(ec.st, c.regElem(s)), p.T, arraySort(c.sc.idxSort(), s)), Ty: elem}, nil
	}
	s := c.sortOf(elem)
	return TV{T: sel(c.get(ec.st, c.regHeap(s)), p.T, s), Ty: elem}, nil
}

func (ec *evalCtx) selector(x *CSel) (TV, error) {
	c := ec.c
	// package-qualified identifier?
	if id, ok := x.X.(*CIdent); ok {
		if _, bound := ec.bind[id.Name]; !bound {
			if _, err := ec.ident(id.Name); err != nil {
				if p := ec.importedPkg(id.Name); p != nil {
					obj := p.Scope().Lookup(x.Sel)
					if obj == nil {
						return TV{}, fmt.Errorf("%s.%s not found", id.Name, x.Sel)
					}
					return ec.object(obj)
				}
				return TV{}, err
			}
		}
	}
	v, err := ec.eval(x.X)
	if err != nil {
		return TV{}, err
	}
	// tuple component: result.0, ret(...).1
	if n, err := strconv.Atoi(x.Sel); err == nil {
		if n < len(v.Tuple) {
			return v.Tuple[n], nil
		}
		return TV{}, fmt.Errorf("tuple index %d out of range", n)
	}
	if v.Ty == nil {
		return TV{}, fmt.Errorf("selector .%s on untyped value", x.Sel)
	}
	obj, path, _ := types.LookupFieldOrMethod(v.Ty, true, ec.pkg(), x.Sel)
	if obj == nil {
		// unexported field of another package: look it up in that package
		if n := namedOf(v.Ty); n != nil && n.Obj().Pkg() != nil {
			obj, path, _ = types.LookupFieldOrMethod(v.Ty, true, n.Obj().Pkg(), x.Sel)
		}
	}
	fld, ok := obj.(*types.Var)
	if !ok || fld == nil {
		return TV{}, fmt.Errorf("%s has no field %s (methods must be called)", v.Ty, x.Sel)
	}
	cur := v
	for _, idx := range path {
		if _, isPtr := under(cur.Ty).(*types.Pointer); isPtr {
			cur, err = ec.deref(cur)
			if err != nil {
				return TV{}, err
			}
		}
		st, ok := under(cur.Ty).(*types.Struct)
		if !ok {
			return TV{}, fmt.Errorf("field selection on non-struct %s", cur.Ty)
		}
		cur = TV{T: c.fieldSel(cur.T, cur.Ty, idx), Ty: st.Field(idx).Type()}
	}
	return cur, nil
}

func namedOf(t types.Type) *types.Named {
	if p, ok := t.(*types.Pointer); ok {
		t = p.Elem()
	}
	n, _ := t.(*types.Named)
	return n
}

func (ec *evalCtx) importedPkg(name string) *types.Package {
	return ec.c.v.importedPkg(ec.pkgPath, name)
}

func (ec *evalCtx) index(x *CIdx) (TV, error) {
	c := ec.c
	v, err := ec.eval(x.X)
	if err != nil {
		return TV{}, err
	}
	i, err := ec.eval(x.I)
	if err != nil {
		return TV{}, err
	}
	if p, ok := under(v.Ty).(*types.Pointer); ok {
		if _, isArr := under(p.Elem()).(*types.Array); isArr {
			v, err = ec.deref(v)
			if err != nil {
				return TV{}, err
			}
		}
	}
	switch t := under(v.Ty).(type) {
	case *types.Slice:
		i = ec.concretise(i, types.Typ[types.Int])
		ix := c.toIdx(i.T, i.Ty)
		if ec.binders == 0 {
			c.noteIndexTerm(ix)
		}
		es := c.sortOf(t.Elem())
		arr := sel(c.get(ec.st, c.regElem(es)), slPtr(v.T), arraySort(c.sc.idxSort(), es))
		return TV{T: sel(arr, c.add(c.slOff(v.T), ix), es), Ty: t.Elem()}, nil
	case *types.Array:
		i = ec.concretise(i, types.Typ[types.Int])
		return TV{T: sel(v.T, c.toIdx(i.T, i.Ty), c.sortOf(t.Elem())), Ty: t.Elem()}, nil
	case *types.Basic:
		i = ec.concretise(i, types.Typ[types.Int])
		return TV{T: c.strAt(v.T, c.toIdx(i.T, i.Ty)), Ty: types.Typ[types.Uint8]}, nil
	case *types.Map:
		i = ec.concretise(i, t.Key())
		ks, vs := c.sortOf(t.Key()), c.sortOf(t.Elem())
		dk, vk := c.regMap(ks, vs)
		in := and(not(eq(v.T, Term{"nil_ref", SRef})), sel(sel(c.get(ec.st, dk), v.T, arraySort(ks, SBool)), i.T, SBool))
		return TV{T: ite(in, sel(sel(c.get(ec.st, vk), v.T, arraySort(ks, vs)), i.T, vs), c.zero(t.Elem())), Ty: t.Elem()}, nil
	}
	return TV{}, fmt.Errorf("cannot index %s", v.Ty)
}

func (ec *evalCtx) unary(x *CUn) (TV, error) {
	c := ec.c
	if x.Op == "&" {
		// &local: the address the code itself has taken of that local (one address per local cell);
		// only meaningful after the code passed it somewhere
		id, ok := x.X.(*CIdent)
		if !ok || ec.fr == nil {
			return TV{}, fmt.Errorf("& is only supported on a local variable")
		}
		for f := ec.fr; f != nil; f = f.parent {
			for _, b := range f.fn.Blocks {
				for _, in := range b.Instrs {
					if a, ok := in.(*ssa.Alloc); ok && a.Comment == id.Name && !f.heapCell[a] {
						if p, ok := f.addrCache[f.cellKey(a)]; ok {
							return TV{T: p, Ty: a.Type()}, nil
						}
					}
					if a, ok := in.(*ssa.Alloc); ok && a.Comment == id.Name && f.heapCell[a] {
						if v, ok := f.env[a]; ok && len(v.T) == 1 {
							return TV{T: v.T[0], Ty: a.Type()}, nil
						}
					}
				}
			}
			if f.fn.Parent() == nil {
				break
			}
		}
		return TV{}, missingSiteErr{fmt.Sprintf("the address of %s has not been taken yet", id.Name)}
	}
	v, err := ec.eval(x.X)
	if err != nil {
		return TV{}, err
	}
	switch x.Op {
	case "!":
		if v.T.Sort != SBool {
			return TV{}, fmt.Errorf("! on non-boolean")
		}
		return TV{T: not(v.T), Ty: v.Ty}, nil
	case "-":
		if v.Const != nil {
			return TV{Const: new(big.Int).Neg(v.Const)}, nil
		}
		if c.sc.mathInts {
			return TV{T: mk(SInt, "-", v.T), Ty: v.Ty}, nil
		}
		return TV{T: mk(v.T.Sort, "bvneg", v.T), Ty: v.Ty}, nil
	case "^":
		if c.sc.mathInts {
			return TV{}, fmt.Errorf("bitwise complement under ints math")
		}
		return TV{T: mk(v.T.Sort, "bvnot", v.T), Ty: v.Ty}, nil
	case "*":
		return ec.deref(v)
	}
	return TV{}, fmt.Errorf("unsupported unary operator %s", x.Op)
}

func (ec *evalCtx) binary(x *CBin) (TV, error) {
	c := ec.c
	boolT := types.Typ[types.Bool]
	switch x.Op {
	case "&&", "||", "==>", "<==>":
		a, err := ec.evalBool(x.X)
		if err != nil {
			return TV{}, err
		}
		// short circuit on a literally decided left operand (did(call K #n) of a call site that does
		// not exist is false: what is said about its result / arguments is then never evaluated)
		switch {
		case x.Op == "&&" && a.S == "false":
			return TV{T: tFalse, Ty: boolT}, nil
		case x.Op == "||" && a.S == "true":
			return TV{T: tTrue, Ty: boolT}, nil
		case x.Op == "==>" && a.S == "false":
			return TV{T: tTrue, Ty: boolT}, nil
		}
		b, err := ec.evalBool(x.Y)
		if err != nil {
			return TV{}, err
		}
		switch x.Op {
		case "&&":
			return TV{T: and(a, b), Ty: boolT}, nil
		case "||":
			return TV{T: or(a, b), Ty: boolT}, nil
		case "==>":
			return TV{T: implies(a, b), Ty: boolT}, nil
		default:
			return TV{T: mk(SBool, "=", a, b), Ty: boolT}, nil
		}
	}
	if x.Op == "==" || x.Op == "!=" {
		// typeOf(v) == T with T written as a type (possibly *pkg.T)
		for _, pair := range [][2]CExpr{{x.X, x.Y}, {x.Y, x.X}} {
			if call, ok := pair[0].(*CCall); ok {
				if id, ok := call.Fun.(*CIdent); ok && id.Name == "typeOf" {
					if ty, ok := ec.asType(pair[1]); ok {
						v, err := ec.eval(pair[0])
						if err != nil {
							return TV{}, err
						}
						t := eq(v.T, Term{fmt.Sprintf("%d", c.typeTag(ty)), SInt})
						if x.Op == "!=" {
							t = not(t)
						}
						return TV{T: t, Ty: boolT}, nil
					}
				}
			}
		}
	}
	a, err := ec.eval(x.X)
	if err != nil {
		return TV{}, err
	}
	b, err := ec.eval(x.Y)
	if err != nil {
		return TV{}, err
	}
	if x.Op == "in" {
		mt, ok := under(b.Ty).(*types.Map)
		if !ok {
			return TV{}, fmt.Errorf("'in' needs a map on the right")
		}
		a = ec.concretise(a, mt.Key())
		ks, vs := c.sortOf(mt.Key()), c.sortOf(mt.Elem())
		dk, _ := c.regMap(ks, vs)
		return TV{T: and(not(eq(b.T, Term{"nil_ref", SRef})), sel(sel(c.get(ec.st, dk), b.T, arraySort(ks, SBool)), a.T, SBool)), Ty: boolT}, nil
	}
	if a.Tag || b.Tag {
		// typeOf(x) == T
		if x.Op == "==" {
			return TV{T: eq(a.T, b.T), Ty: boolT}, nil
		}
		if x.Op == "!=" {
			return TV{T: not(eq(a.T, b.T)), Ty: boolT}, nil
		}
	}
	if a.Const != nil && b.Const != nil {
		r := new(big.Int)
		switch x.Op {
		case "+":
			return TV{Const: r.Add(a.Const, b.Const)}, nil
		case "-":
			return TV{Const: r.Sub(a.Const, b.Const)}, nil
		case "*":
			return TV{Const: r.Mul(a.Const, b.Const)}, nil
		case "/":
			return TV{Const: r.Quo(a.Const, b.Const)}, nil
		case "%":
			return TV{Const: r.Rem(a.Const, b.Const)}, nil
		case "<<":
			return TV{Const: r.Lsh(a.Const, uint(b.Const.Uint64()))}, nil
		case ">>":
			return TV{Const: r.Rsh(a.Const, uint(b.Const.Uint64()))}, nil
		}
	}
	if (x.Op == "<<" || x.Op == ">>") && !a.IsNil && a.Const == nil {
		b = ec.concretise(b, types.Typ[types.Uint])
	} else {
		a, b = ec.unify(a, b)
	}
	if a.Ty == nil || b.Ty == nil {
		return TV{}, fmt.Errorf("cannot type operands of %s", x.Op)
	}
	var op token.Token
	switch x.Op {
	case "==":
		op = token.EQL
	case "!=":
		op = token.NEQ
	case "<":
		op = token.LSS
	case "<=":
		op = token.LEQ
	case ">":
		op = token.GTR
	case ">=":
		op = token.GEQ
	case "+":
		op = token.ADD
	case "-":
		op = token.SUB
	case "*":
		op = token.MUL
	case "/":
		op = token.QUO
	case "%":
		op = token.REM
	case "&":
		op = token.AND
	case "|":
		op = token.OR
	case "^":
		op = token.XOR
	case "<<":
		op = token.SHL
	case ">>":
		op = token.SHR
	case "&^":
		op = token.AND_NOT
	default:
		return TV{}, fmt.Errorf("unsupported operator %s", x.Op)
	}
	if a.T.Sort != b.T.Sort && op != token.SHL && op != token.SHR && !(isMathIntSort(a.T.Sort) && isMathIntSort(b.T.Sort)) {
		return TV{}, fmt.Errorf("operands of %s have different sorts (%s: %s, %s: %s)", x.Op, a.Ty, a.T.Sort, b.Ty, b.T.Sort)
	}
	t, err := ec.pureBinop(op, a, b)
	if err != nil {
		return TV{}, err
	}
	rt := a.Ty
	if t.Sort == SBool && !(isBoolean(a.Ty) && (op == token.AND || op == token.OR)) {
		rt = boolT
	}
	return TV{T: t, Ty: rt}, nil
}

// pureBinop: like Frame.binop but without safety obligations or script-level definitions.
func (ec *evalCtx) pureBinop(op token.Token, a, b TV) (Term, error) {
	c := ec.c
	if a.T.Sort == SStr && op == token.ADD {
		c.sc.declFun("str_concat", []Sort{SStr, SStr}, SStr)
		return mk(SStr, "str_concat", a.T, b.T), nil
	}
	tmp := &Frame{c: c, reach: tTrue}
	saved := c.safety
	c.safety = false
	savedLines := len(c.sc.lines)
	t, err := tmp.binop(op, a.T, b.T, a.Ty, b.Ty, token.NoPos)
	c.safety = saved
	// drop division-by-zero assumptions generated for specification-level arithmetic
	if len(c.sc.lines) > savedLines {
		keep := c.sc.lines[:savedLines]
		for _, l := range c.sc.lines[savedLines:] {
			if l.kind == lkDefine && ec.binders == 0 {
				keep = append(keep, l)
			}
		}
		c.sc.lines = keep
	}
	return t, err
}

func (ec *evalCtx) quant(x *CQuant) (TV, error) {
	c := ec.c
	sub := ec.sub()
	sub.binders++
	var decl []string
	var guards []Term
	for _, v := range x.Vars {
		ty, err := ec.resolveType(v.T)
		if err != nil {
			return TV{}, err
		}
		c.qn++
		name := fmt.Sprintf("q_%s_%d", sanitize(v.Name), c.qn)
		s := c.sortOf(ty)
		decl = append(decl, fmt.Sprintf("(%s %s)", name, s))
		t := Term{name, s}
		sub.bind[v.Name] = TV{T: t, Ty: ty}
		// quantified variables of struct type range over all values of the SMT sort (no
		// well-formedness guard): lemmas are proved for all of them, so using them needs no
		// side condition on elements read from the heap
		if _, isStruct := under(ty).(*types.Struct); !isStruct {
			if wf := c.wfTerm(t, ty); wf.S != "true" {
				guards = append(guards, wf)
			}
		}
	}
	body, err := sub.evalBool(x.Body)
	if err != nil {
		return TV{}, err
	}
	q := "forall"
	if x.Forall {
		body = implies(and(guards...), body)
	} else {
		q = "exists"
		body = and(append(guards, body)...)
	}
	return TV{T: Term{fmt.Sprintf("(%s (%s) %s)", q, strings.Join(decl, " "), body.S), SBool}, Ty: types.Typ[types.Bool]}, nil
}

func (ec *evalCtx) event(x *CEvent) (TV, error) {
	var ev *Event
	if x.Callee == "" {
		ev = ec.thisCall
		if ev == nil {
			return TV{}, fmt.Errorf("%s(...) without call reference is only valid in a sink clause", x.Kind)
		}
	} else {
		if ec.hoEvents != nil {
			if e, ok := ec.hoEvents[x.Callee]; ok {
				ev = e
			}
		}
		if ev == nil {
			var err error
			ev, err = ec.findEvent(x.Callee, x.Ord)
			if err != nil {
				return TV{}, err
			}
		}
	}
	boolT := types.Typ[types.Bool]
	switch x.Kind {
	case "did":
		if ev == nil {
			return TV{T: tFalse, Ty: boolT}, nil
		}
		return TV{T: ev.did, Ty: boolT}, nil
	case "arg":
		if ev == nil {
			return TV{}, missingSiteErr{fmt.Sprintf("arg() of a call site that does not exist or has not been executed yet: %s #%d", x.Callee, x.Ord)}
		}
		if x.Index >= len(ev.args) {
			return TV{}, fmt.Errorf("arg index %d out of range for %s", x.Index, x.Callee)
		}
		return ev.args[x.Index], nil
	case "ret":
		if ev == nil {
			return TV{}, missingSiteErr{fmt.Sprintf("ret() of a call site that does not exist or has not been executed yet: %s #%d", x.Callee, x.Ord)}
		}
		if x.Index >= 0 {
			if x.Index >= len(ev.rets) {
				return TV{}, fmt.Errorf("ret index out of range")
			}
			return ev.rets[x.Index], nil
		}
		if len(ev.rets) == 1 {
			return ev.rets[0], nil
		}
		return TV{Tuple: ev.rets}, nil
	}
	return TV{}, fmt.Errorf("bad event kind")
}

// findEvent locates the event of call site `callee #ord` in the visible frames. A site that exists
// in the code but was not executed yet (or lies on no path) yields nil (did == false).
func (ec *evalCtx) findEvent(callee string, ord int) (*Event, error) {
	v := ec.c.v
	fr := ec.fr
	if fr == nil {
		fr = ec.callerFr
	}
	if ord == 0 {
		return nil, fmt.Errorf("call reference %q needs an explicit ordinal here", callee)
	}
	var frames []*Frame
	for f := fr; f != nil; f = f.parent {
		frames = append(frames, f)
		frames = append(frames, f.children...)
	}
	siteExists := false
	var found []*Event
	for _, f := range frames {
		var ks []string
		for k := range f.events {
			ks = append(ks, k)
		}
		sort.Strings(ks)
		for _, k := range ks {
			e := f.events[k]
			if e.ord == ord && v.keyMatches(e.key, callee) {
				found = append(found, e)
			}
		}
	}
	if len(found) == 1 {
		return found[0], nil
	}
	if len(found) > 1 {
		// the same site executed in several inlined instances of a function (a deferred closure is
		// inlined at every return): the instances lie on different paths; merge them
		m := &Event{key: found[0].key, ord: ord, block: found[0].block}
		var dids []Term
		for _, e := range found {
			dids = append(dids, e.did)
		}
		m.did = or(dids...)
		pick := func(get func(e *Event) []TV) []TV {
			base := get(found[len(found)-1])
			out := make([]TV, len(base))
			copy(out, base)
			for i := len(found) - 2; i >= 0; i-- {
				cur := get(found[i])
				if len(cur) != len(out) {
					continue
				}
				for j := range out {
					if cur[j].T.Sort == out[j].T.Sort {
						out[j] = TV{T: ite(found[i].did, cur[j].T, out[j].T), Ty: out[j].Ty}
					}
				}
			}
			return out
		}
		m.args = pick(func(e *Event) []TV { return e.args })
		m.rets = pick(func(e *Event) []TV { return e.rets })
		return m, nil
	}
	for _, f := range frames {
		for _, si := range f.sites {
			if si.ord == ord && v.keyMatches(si.key, callee) {
				siteExists = true
			}
		}
	}
	_ = siteExists
	// a call site that does not (or no longer) exist was never executed: did == false
	return nil, nil
}

func (ec *evalCtx) resolveType(t *CType) (types.Type, error) {
	switch t.Kind {
	case "ptr":
		e, err := ec.resolveType(t.Elem)
		if err != nil {
			return nil, err
		}
		return types.NewPointer(e), nil
	case "slice":
		e, err := ec.resolveType(t.Elem)
		if err != nil {
			return nil, err
		}
		return types.NewSlice(e), nil
	case "array":
		e, err := ec.resolveType(t.Elem)
		if err != nil {
			return nil, err
		}
		return types.NewArray(e, t.Len), nil
	case "map":
		k, err := ec.resolveType(t.Key)
		if err != nil {
			return nil, err
		}
		e, err := ec.resolveType(t.Elem)
		if err != nil {
			return nil, err
		}
		return types.NewMap(k, e), nil
	}
	name := t.Name
	if name == "any" {
		// the alias and the literal must name the same type tag
		return types.NewInterfaceType(nil, nil), nil
	}
	if i := strings.LastIndex(name, "."); i >= 0 {
		q, n := name[:i], name[i+1:]
		p := ec.importedPkg(q)
		if p == nil {
			p = ec.c.v.typesPkg(q)
		}
		if p == nil {
			return nil, fmt.Errorf("unknown package %q in type %s", q, name)
		}
		if obj, ok := p.Scope().Lookup(n).(*types.TypeName); ok {
			return obj.Type(), nil
		}
		return nil, fmt.Errorf("unknown type %s", name)
	}
	if p := ec.pkg(); p != nil {
		if obj, ok := p.Scope().Lookup(name).(*types.TypeName); ok {
			return obj.Type(), nil
		}
	}
	if obj, ok := types.Universe.Lookup(name).(*types.TypeName); ok {
		return obj.Type(), nil
	}
	return nil, fmt.Errorf("unknown type %s", name)
}

func (ec *evalCtx) call(x *CCall) (TV, error) {
	c := ec.c
	// conversions written with a syntactic type: []byte(x), (*T)(x)
	if te, ok := x.Fun.(*CTypeExpr); ok {
		ty, err := ec.resolveType(te.T)
		if err != nil {
			return TV{}, err
		}
		return ec.convert(x.Args[0], ty)
	}
	if id, ok := x.Fun.(*CIdent); ok {
		switch id.Name {
		case "old":
			if len(x.Args) != 1 {
				return TV{}, fmt.Errorf("old() takes one argument")
			}
			sub := *ec
			sub.st = ec.old
			sub.entryPar = true
			if ec.localsSt == nil {
				sub.localsSt = ec.st
			}
			return sub.eval(x.Args[0])
		case "len", "cap":
			v, err := ec.eval(x.Args[0])
			if err != nil {
				return TV{}, err
			}
			if p, ok := under(v.Ty).(*types.Pointer); ok {
				if arr, ok := under(p.Elem()).(*types.Array); ok {
					return ec.concretise(TV{Const: big.NewInt(arr.Len())}, types.Typ[types.Int]), nil
				}
			}
			intT := types.Typ[types.Int]
			switch t := under(v.Ty).(type) {
			case *types.Slice:
				if ec.binders == 0 {
					// type invariant of every Go slice value: 0 <= len <= cap
					c.assumeG(c.sliceWF(v.T))
				}
				if id.Name == "len" {
					return TV{T: c.slLen(v.T), Ty: intT}, nil
				}
				return TV{T: c.slCap(v.T), Ty: intT}, nil
			case *types.Basic:
				return TV{T: c.strlen(v.T), Ty: intT}, nil
			case *types.Array:
				return ec.concretise(TV{Const: big.NewInt(t.Len())}, intT), nil
			case *types.Map:
				ks, vs := c.sortOf(t.Key()), c.sortOf(t.Elem())
				dk, _ := c.regMap(ks, vs)
				c.sc.declFun("map_len", []Sort{arraySort(ks, SBool)}, c.sc.idxSort())
				return TV{T: ite(eq(v.T, Term{"nil_ref", SRef}), c.sc.idxLit(0), mk(c.sc.idxSort(), "map_len", sel(c.get(ec.st, dk), v.T, arraySort(ks, SBool)))), Ty: intT}, nil
			}
			return TV{}, fmt.Errorf("len of %s", v.Ty)
		case "typeOf":
			v, err := ec.eval(x.Args[0])
			if err != nil {
				return TV{}, err
			}
			if v.T.Sort != SIface {
				return TV{}, fmt.Errorf("typeOf needs an interface value")
			}
			return TV{T: ifTag(v.T), Tag: true, Ty: types.Typ[types.Int]}, nil
		case "visited":
			// visited(K, key): the range over a map that is loop K has already yielded this key
			if len(x.Args) != 2 || ec.fr == nil {
				return TV{}, fmt.Errorf("visited(loopOrdinal, key)")
			}
			ord, err := ec.eval(x.Args[0])
			if err != nil || ord.Const == nil {
				return TV{}, fmt.Errorf("visited: the first argument is the loop ordinal (an integer literal)")
			}
			k, err := ec.eval(x.Args[1])
			if err != nil {
				return TV{}, err
			}
			key := fmt.Sprintf("MS:loop%s@%d", ord.Const.String(), ec.fr.frameID)
			if !ec.st.has(key) {
				// the range has not started on this path: nothing visited
				return TV{T: tFalse, Ty: types.Typ[types.Bool]}, nil
			}
			seen := c.get(ec.st, key)
			if k.Const != nil {
				k = ec.concretise(k, types.Typ[types.String])
			}
			return TV{T: sel(seen, k.T, SBool), Ty: types.Typ[types.Bool]}, nil
		case "implements":
			// implements(v, I): the dynamic type of the interface value v implements interface type I -
			// the predicate a type switch / comma-ok assertion to I decides (execTypeAssert)
			if len(x.Args) != 2 {
				return TV{}, fmt.Errorf("implements(value, InterfaceType)")
			}
			v, err := ec.eval(x.Args[0])
			if err != nil {
				return TV{}, err
			}
			ty, ok := ec.asType(x.Args[1])
			if !ok {
				return TV{}, fmt.Errorf("implements: second argument is not a type")
			}
			if _, isIface := under(ty).(*types.Interface); !isIface || v.T.Sort != SIface {
				return TV{}, fmt.Errorf("implements needs an interface value and an interface type")
			}
			name := "implements_" + sanitize(types.TypeString(ty, nil))
			c.sc.declFun(name, []Sort{SInt}, SBool)
			return TV{T: and(not(eq(ifTag(v.T), Term{"0", SInt})), mk(SBool, name, ifTag(v.T))), Ty: types.Typ[types.Bool]}, nil
		case "same":
			// identical values (SMT equality; Go's == on structs/arrays compares fieldwise)
			if len(x.Args) != 2 {
				return TV{}, fmt.Errorf("same() takes two arguments")
			}
			a, err := ec.eval(x.Args[0])
			if err != nil {
				return TV{}, err
			}
			b, err := ec.eval(x.Args[1])
			if err != nil {
				return TV{}, err
			}
			a, b = ec.unify(a, b)
			return TV{T: eq(a.T, b.T), Ty: types.Typ[types.Bool]}, nil
		case "isFresh":
			// the object was allocated by this function (not reachable from the entry state)
			v, err := ec.eval(x.Args[0])
			if err != nil {
				return TV{}, err
			}
			c.sc.declFun("alloc_id", []Sort{SRef}, SInt)
			var p Term
			switch v.T.Sort {
			case SSlice:
				p = slPtr(v.T)
			case SRef:
				p = v.T
			default:
				return TV{}, fmt.Errorf("isFresh needs a pointer, map or slice")
			}
			return TV{T: mk(SBool, ">", mk(SInt, "alloc_id", p), Term{"0", SInt}), Ty: types.Typ[types.Bool]}, nil
		case "didCallWith":
			// didCallWith("callee", i, v): some executed call of callee (any site) had argument i equal to v
			if len(x.Args) != 3 {
				return TV{}, fmt.Errorf("didCallWith(callee, argIndex, value)")
			}
			cs, ok1 := x.Args[0].(*CStrL)
			ci, ok2 := x.Args[1].(*CInt)
			if !ok1 || !ok2 {
				return TV{}, fmt.Errorf("didCallWith needs a string literal callee and a literal argument index")
			}
			ai, _ := strconv.Atoi(ci.Text)
			want, err := ec.eval(x.Args[2])
			if err != nil {
				return TV{}, err
			}
			fr := ec.fr
			if fr == nil {
				fr = ec.callerFr
			}
			var evs []*Event
			for f := fr; f != nil; f = f.parent {
				for _, e := range f.events {
					if c.v.keyMatches(e.key, cs.Val) && ai < len(e.args) {
						evs = append(evs, e)
					}
				}
				for _, ch := range f.children {
					for _, e := range ch.events {
						if c.v.keyMatches(e.key, cs.Val) && ai < len(e.args) {
							evs = append(evs, e)
						}
					}
				}
			}
			sort.Slice(evs, func(i, j int) bool {
				if evs[i].key != evs[j].key {
					return evs[i].key < evs[j].key
				}
				return evs[i].ord < evs[j].ord
			})
			alts := []Term{}
			for _, e := range evs {
				a, b := ec.unify(e.args[ai], want)
				if a.T.Sort != b.T.Sort {
					continue
				}
				alts = append(alts, and(e.did, eq(a.T, b.T)))
			}
			if len(alts) == 0 {
				return TV{T: tFalse, Ty: types.Typ[types.Bool]}, nil
			}
			return TV{T: or(alts...), Ty: types.Typ[types.Bool]}, nil
		case "isNilIface":
			v, err := ec.eval(x.Args[0])
			if err != nil {
				return TV{}, err
			}
			if v.T.Sort != SIface {
				return TV{}, fmt.Errorf("isNilIface needs an interface value, got %s", v.Ty)
			}
			return TV{T: eq(ifTag(v.T), Term{"0", SInt}), Ty: types.Typ[types.Bool]}, nil
		}
		if _, bound := ec.bind[id.Name]; !bound {
			// conversion to a named / basic type?
			if ty, err := ec.resolveType(&CType{Kind: "name", Name: id.Name}); err == nil && len(x.Args) == 1 {
				if c.v.ghost(ec.pkgPath, id.Name) == nil {
					return ec.convert(x.Args[0], ty)
				}
			}
			if g := c.v.ghost(ec.pkgPath, id.Name); g != nil {
				return ec.ghostApp(g, x.Args)
			}
			// package-level function of the current package
			if p := ec.pkg(); p != nil {
				if fn, ok := p.Scope().Lookup(id.Name).(*types.Func); ok {
					return ec.pureCall(fn, nil, x.Args)
				}
			}
		}
		return TV{}, fmt.Errorf("unknown function %q", id.Name)
	}
	if sel, ok := x.Fun.(*CSel); ok {
		// pkg.Func(...) ?
		if id, ok := sel.X.(*CIdent); ok {
			if _, bound := ec.bind[id.Name]; !bound {
				if _, err := ec.ident(id.Name); err != nil {
					if p := ec.importedPkg(id.Name); p != nil {
						switch obj := p.Scope().Lookup(sel.Sel).(type) {
						case *types.Func:
							return ec.pureCall(obj, nil, x.Args)
						case *types.TypeName:
							return ec.convert(x.Args[0], obj.Type())
						}
						return TV{}, fmt.Errorf("%s.%s is not a function", id.Name, sel.Sel)
					}
				}
			}
		}
		// method call
		recv, err := ec.eval(sel.X)
		if err != nil {
			return TV{}, err
		}
		if recv.Ty == nil {
			return TV{}, fmt.Errorf("method call on untyped value")
		}
		obj, _, _ := types.LookupFieldOrMethod(recv.Ty, true, ec.pkg(), sel.Sel)
		if obj == nil {
			if n := namedOf(recv.Ty); n != nil && n.Obj().Pkg() != nil {
				obj, _, _ = types.LookupFieldOrMethod(recv.Ty, true, n.Obj().Pkg(), sel.Sel)
			}
		}
		fn, ok := obj.(*types.Func)
		if !ok {
			return TV{}, fmt.Errorf("%s has no method %s", recv.Ty, sel.Sel)
		}
		return ec.pureCall(fn, &recv, x.Args)
	}
	return TV{}, fmt.Errorf("unsupported call expression")
}

func (ec *evalCtx) convert(arg CExpr, ty types.Type) (TV, error) {
	c := ec.c
	v, err := ec.eval(arg)
	if err != nil {
		return TV{}, err
	}
	if v.Const != nil || v.IsNil {
		return ec.concretise(v, ty), nil
	}
	if isInteger(v.Ty) && isInteger(ty) {
		return TV{T: c.convInt(v.T, v.Ty, ty), Ty: ty}, nil
	}
	if c.sortOf(v.Ty) == c.sortOf(ty) {
		return TV{T: v.T, Ty: ty}, nil
	}
	if _, isIface := under(ty).(*types.Interface); isIface {
		return TV{T: c.makeIface(v.T, v.Ty), Ty: ty}, nil
	}
	if c.sc.ieeeFloats && isInteger(v.Ty) && isFloat64(ty) {
		return TV{T: c.intToFloat(v.T, v.Ty), Ty: ty}, nil
	}
	if c.sc.ieeeFloats && isFloat64(v.Ty) && isInteger(ty) {
		return TV{T: c.floatToInt(v.T, ty), Ty: ty}, nil
	}
	if isString(ty) && isSliceOfBytes(v.Ty) {
		// the same term the executed conversion string(b) denotes (execConvert): a function of the bytes
		// b currently holds
		c.sc.declFun("bytes_to_str", []Sort{arraySort(c.sc.idxSort(), c.sortOf(types.Typ[types.Uint8])), c.sc.idxSort(), c.sc.idxSort()}, SStr)
		bs := c.sortOf(types.Typ[types.Uint8])
		arr := sel(c.get(ec.st, c.regElem(bs)), slPtr(v.T), arraySort(c.sc.idxSort(), bs))
		return TV{T: mk(SStr, "bytes_to_str", arr, c.slOff(v.T), c.slLen(v.T)), Ty: ty}, nil
	}
	return TV{}, fmt.Errorf("unsupported conversion %s -> %s in contract", v.Ty, ty)
}

// pureCall applies a pure function or method (declared pure by a contract) to arguments.
func (ec *evalCtx) pureCall(fn *types.Func, recv *TV, args []CExpr) (TV, error) {
	c := ec.c
	sig := fn.Type().(*types.Signature)
	key := fn.FullName()
	if recv != nil {
		// interface method invoked on an interface-typed receiver: key by the static receiver type
		if _, isIface := under(recv.Ty).(*types.Interface); isIface {
			key = "(" + types.TypeString(recv.Ty, nil) + ")." + fn.Name()
		}
	}
	if c.sc.ieeeFloats && recv == nil && len(args) == 1 {
		if v, err := ec.eval(args[0]); err == nil && v.Const == nil && !v.IsNil {
			if t, ok := c.ieeeBuiltin(key, []Term{v.T}); ok {
				return TV{T: t, Ty: sig.Results().At(0).Type()}, nil
			}
		}
	}
	con := c.v.findContract(key, c.fromPkg())
	if con == nil || !con.Pure {
		return TV{}, fmt.Errorf("%s is called in a contract but is not declared pure", shortKey(key))
	}
	con.Used = true
	if con.External || con.Trusted {
		c.trustedUsed[key] = true
	}
	var terms []Term
	var tys []types.Type
	if recv != nil {
		r := *recv
		// adjust receiver: method with pointer receiver called on addressable value is not supported; value receiver on pointer derefs
		if sig.Recv() != nil {
			_, wantPtr := under(sig.Recv().Type()).(*types.Pointer)
			_, havePtr := under(r.Ty).(*types.Pointer)
			if !wantPtr && havePtr {
				var err error
				r, err = ec.deref(r)
				if err != nil {
					return TV{}, err
				}
			}
		}
		terms = append(terms, r.T)
		tys = append(tys, r.Ty)
	}
	for i, a := range args {
		v, err := ec.eval(a)
		if err != nil {
			return TV{}, err
		}
		var pt types.Type
		if sig.Variadic() && i >= sig.Params().Len()-1 {
			pt = sig.Params().At(sig.Params().Len() - 1).Type().(*types.Slice).Elem()
		} else if i < sig.Params().Len() {
			pt = sig.Params().At(i).Type()
		} else {
			return TV{}, fmt.Errorf("too many arguments to %s", fn.Name())
		}
		if containsTypeParam(pt) && v.Ty != nil {
			pt = v.Ty // generic function: the instantiated parameter type is the argument's type
		}
		v = ec.concretise(v, pt)
		if _, isIface := under(pt).(*types.Interface); isIface && v.T.Sort != SIface {
			v = TV{T: c.makeIface(v.T, v.Ty), Ty: pt}
		}
		terms = append(terms, v.T)
		tys = append(tys, pt)
	}
	res := sig.Results()
	if res.Len() == 0 {
		return TV{}, fmt.Errorf("%s has no result", fn.Name())
	}
	if d := ""; !con.Opaque || c.inLemma {
		d = c.v.definedPure(c, key, con, fn, tys)
		if d != "" {
			rs := c.sortOf(res.At(0).Type())
			return TV{T: mk(rs, d, terms...), Ty: res.At(0).Type()}, nil
		}
	}
	if d := ""; d != "" {
		rs := c.sortOf(res.At(0).Type())
		return TV{T: mk(rs, d, terms...), Ty: res.At(0).Type()}, nil
	}
	var tvs []TV
	for i := 0; i < res.Len(); i++ {
		t := c.pureTerm(key, i, terms, tys, res.At(i).Type(), con.PureHeap, ec.st)
		tvs = append(tvs, TV{T: t, Ty: res.At(i).Type()})
	}
	if ec.binders == 0 && len(con.Ensures) > 0 && c.pureDepth < 3 && (!con.Opaque || c.inLemma) {
		names := paramNames(nil, sig, false)
		if recv != nil && sig.Recv() == nil {
			names = append([]string{"recv"}, names...)
		}
		c.instantiatePure(con, key, names, terms, tys, tvs, ec.st)
	}
	if len(tvs) == 1 {
		return tvs[0], nil
	}
	return TV{Tuple: tvs}, nil
}

// instantiatePure assumes the postconditions of a pure function for one application.
func (c *FuncCtx) instantiatePure(con *Contract, key string, names []string, terms []Term, tys []types.Type, results []TV, st *State) {
	memo := "pureinst:" + key + ":" + fmt.Sprint(terms) + ":" + results[0].T.S
	if c.pureDecl[memo] {
		return
	}
	c.pureDecl[memo] = true
	pkgPath := con.Pkg
	if pkgPath == "" {
		pkgPath = keyPkgPath(key)
	}
	bind := map[string]TV{}
	for i, n := range names {
		if i < len(terms) {
			bind[n] = TV{T: terms[i], Ty: tys[i]}
		}
	}
	if len(results) == 1 {
		bind["result"] = results[0]
	} else {
		bind["result"] = TV{Tuple: results}
	}
	c.pureDepth++
	defer func() { c.pureDepth-- }()
	ec := &evalCtx{c: c, st: st, old: st, bind: bind, pkgPath: pkgPath}
	for _, cl := range con.Ensures {
		if mentionsEvents(cl.Expr, nil) {
			continue // about the function's own call sites: not part of its meaning as a pure function
		}
		t, err := ec.evalBool(cl.Expr)
		if err != nil {
			c.stale = append(c.stale, fmt.Sprintf("%s:%d: %v", cl.File, cl.Line, err))
			continue
		}
		c.assumeG(t)
	}
}

func (ec *evalCtx) ghostApp(g *GhostFunc, args []CExpr) (TV, error) {
	c := ec.c
	gctx := *ec
	gctx.pkgPath = g.Pkg
	if g.Pkg == "" {
		gctx.pkgPath = ec.pkgPath
	}
	rt, err := gctx.resolveType(g.Result)
	if err != nil {
		return TV{}, err
	}
	if len(args) != len(g.Params) {
		return TV{}, fmt.Errorf("ghost %s: wrong number of arguments", g.Name)
	}
	var terms []Term
	var sorts []Sort
	var ptys []types.Type
	for i, a := range args {
		pt, err := gctx.resolveType(g.Params[i].T)
		if err != nil {
			return TV{}, err
		}
		v, err := ec.eval(a)
		if err != nil {
			return TV{}, err
		}
		v = ec.concretise(v, pt)
		if _, isIface := under(pt).(*types.Interface); isIface && v.T.Sort != SIface {
			v = TV{T: c.makeIface(v.T, v.Ty), Ty: pt}
		}
		terms = append(terms, v.T)
		sorts = append(sorts, c.sortOf(pt))
		ptys = append(ptys, pt)
	}
	name := "gf_" + sanitize(g.Name)
	rs := c.sortOf(rt)
	if g.Define != nil {
		if !c.pureDecl["ghostdef:"+name] {
			c.pureDecl["ghostdef:"+name] = true
			sub := &evalCtx{c: c, st: ec.st, old: ec.old, bind: map[string]TV{}, pkgPath: gctx.pkgPath, binders: 1}
			var formals []string
			for i, p := range g.Params {
				fn := fmt.Sprintf("%s_%s", name, sanitize(p.Name))
				formals = append(formals, fmt.Sprintf("(%s %s)", fn, sorts[i]))
				sub.bind[p.Name] = TV{T: Term{fn, sorts[i]}, Ty: ptys[i]}
			}
			body, err := sub.eval(g.Define.Expr)
			if err != nil {
				return TV{}, fmt.Errorf("ghost %s: %v", g.Name, err)
			}
			body = sub.concretise(body, rt)
			c.sc.axioms = append(c.sc.axioms, fmt.Sprintf("(define-fun %s (%s) %s %s)", name, strings.Join(formals, " "), rs, body.T.S))
			c.sc.funSeen[name] = true
		}
		return TV{T: mk(rs, name, terms...), Ty: rt}, nil
	}
	c.sc.declFun(name, sorts, rs)
	return TV{T: mk(rs, name, terms...), Ty: rt}, nil
}

type missingSiteErr struct{ msg string }

func (e missingSiteErr) Error() string { return e.msg }

// evalClause evaluates a contract clause. A clause that refers to the result or arguments of a
// call site that no longer exists cannot hold: it evaluates to false (under the antecedent of a
// top-level implication when that part can still be evaluated).
func (ec *evalCtx) evalClause(e CExpr) (Term, error) {
	// a disjunct that talks about call sites not executed yet, or about locals not yet in scope,
	// cannot be the reason the clause holds at this point: it counts as false
	if bin, ok := e.(*CBin); ok && bin.Op == "||" {
		l, lerr := ec.evalClause(bin.X)
		r, rerr := ec.evalClause(bin.Y)
		notYet := func(err error) bool {
			if err == nil {
				return false
			}
			_, ms := err.(missingSiteErr)
			return ms || strings.Contains(err.Error(), "is not in scope here")
		}
		switch {
		case lerr == nil && rerr == nil:
			return or(l, r), nil
		case lerr == nil && notYet(rerr):
			return l, nil
		case rerr == nil && notYet(lerr):
			return r, nil
		case lerr != nil:
			return Term{}, lerr
		default:
			return Term{}, rerr
		}
	}
	t, err := ec.evalBool(e)
	if err == nil {
		return t, nil
	}
	if strings.Contains(err.Error(), "is not in scope here") {
		return tFalse, nil
	}
	if _, ok := err.(missingSiteErr); !ok {
		return Term{}, err
	}
	if bin, ok := e.(*CBin); ok && bin.Op == "==>" {
		if a, aerr := ec.evalBool(bin.X); aerr == nil {
			return not(a), nil
		}
	}
	return tFalse, nil
}

func containsTypeParam(t types.Type) bool {
	switch u := t.(type) {
	case *types.TypeParam:
		return true
	case *types.Slice:
		return containsTypeParam(u.Elem())
	case *types.Pointer:
		return containsTypeParam(u.Elem())
	case *types.Array:
		return containsTypeParam(u.Elem())
	case *types.Map:
		return containsTypeParam(u.Key()) || containsTypeParam(u.Elem())
	}
	return false
}

// asType interprets an expression as a type: T, pkg.T, *T, *pkg.T.
func (ec *evalCtx) asType(e CExpr) (types.Type, bool) {
	switch x := e.(type) {
	case *CTypeExpr:
		ty, err := ec.resolveType(x.T)
		return ty, err == nil
	case *CUn:
		if x.Op == "*" {
			if inner, ok := ec.asType(x.X); ok {
				return types.NewPointer(inner), true
			}
		}
	case *CIdent:
		if _, bound := ec.bind[x.Name]; bound {
			return nil, false
		}
		ty, err := ec.resolveType(&CType{Kind: "name", Name: x.Name})
		return ty, err == nil
	case *CSel:
		if id, ok := x.X.(*CIdent); ok {
			ty, err := ec.resolveType(&CType{Kind: "name", Name: id.Name + "." + x.Sel})
			return ty, err == nil
		}
	}
	return nil, false
}
