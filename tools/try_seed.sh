#!/bin/bash
# try_seed.sh <src-dir> <id> <package-dir-of-demo> [test-regex]
# Confirms a seeded change (demo passes on the unchanged tree, fails with the patch) in a scratch worktree of /repo
# and runs the property's quick check against that patched worktree (GOVC_REPO) with a scratch copy of /verif
# (GOVC_VERIF), so several changes can be tried at once and neither /repo nor /verif is touched.
# Output: /tmp/seed-results/<id>.{confirm,check}.log ; everything else is removed.
export GOFLAGS=-mod=mod GOPROXY=off GOSUMDB=off GOTOOLCHAIN=local
src=$1; id=$2; pkg=$3; re=${4:-SeedDemo}
prop=${id%%-*}
out=/tmp/seed-results; mkdir -p $out
wt=/tmp/wt-try-$id; vd=/tmp/vf-try-$id
rm -rf "$vd"; git -C /repo worktree remove --force "$wt" 2>/dev/null
git -C /repo worktree add -q --detach "$wt" HEAD || exit 2
cp "$src/zz_seed_demo_test.go" "$wt/$pkg/zz_seed_demo_test.go"
(cd "$wt" && go test -count=1 -timeout 600s -run "$re" "./$pkg/" > $out/$id.clean.log 2>&1); a=$?
(cd "$wt" && git apply "$src/patch.diff") || { echo "$id: patch does not apply"; }
(cd "$wt" && go test -count=1 -timeout 600s -run "$re" "./$pkg/" > $out/$id.patched.log 2>&1); b=$?
rm -f "$wt/$pkg/zz_seed_demo_test.go"
echo "$id confirm: clean exit=$a ($(tail -1 $out/$id.clean.log)); patched exit=$b ($(grep -m1 -- '--- FAIL' $out/$id.patched.log))" > $out/$id.confirm.log
rsync -a --exclude .git --exclude seeded --exclude selftest --exclude replays /verif/ "$vd/"
(cd "$vd" && GOVC_REPO="$wt" GOVC_VERIF="$vd" ./bin/govc check --property "$prop" --tier quick > $out/$id.check.log 2>&1; echo "exit=$?" >> $out/$id.check.log)
git -C /repo worktree remove --force "$wt"; git -C /repo worktree prune; rm -rf "$vd"
cat $out/$id.confirm.log; grep -E "^VIOLATION|^STALE|^UNDECIDED|^ENGINE|^FRAME-LOST|^exit=" $out/$id.check.log | cut -c1-260
