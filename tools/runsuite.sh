#!/bin/bash
# runsuite.sh <dir> <out.json>
export GOFLAGS=-mod=mod GOPROXY=off GOSUMDB=off GOTOOLCHAIN=local
cd "$1" && go test -json -vet=off -count=1 -timeout 25m ./... > "$2" 2>/dev/null
echo done > "$2.done"
