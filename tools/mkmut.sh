#!/bin/bash
# mkmut.sh <Cnn> <name> <file-relative-to-repo> <expect-substring> <perl-substitution>
# Creates /verif/selftest/<Cnn>/<name>.patch from a one-line edit of a scratch copy of the file.
set -e
prop=$1; name=$2; file=$3; expect=$4; subst=$5
tmp=$(mktemp -d)
mkdir -p "$tmp/a/$(dirname "$file")" "$tmp/b/$(dirname "$file")" "/verif/selftest/$prop"
cp "/repo/$file" "$tmp/a/$file"; cp "/repo/$file" "$tmp/b/$file"
perl -0pi -e "$subst" "$tmp/b/$file"
if cmp -s "$tmp/a/$file" "$tmp/b/$file"; then echo "mkmut: substitution did not change $file" >&2; rm -rf "$tmp"; exit 1; fi
out="/verif/selftest/$prop/$name.patch"
{ echo "# mutant $name for $prop: $subst"; echo "# expect: $expect"; (cd "$tmp" && diff -u "a/$file" "b/$file" || true); } > "$out"
rm -rf "$tmp"
echo "wrote $out"
