#!/usr/bin/env python3
"""Regenerates /verif/MANIFEST.json from tools/claims.json (per-property texts) and the repository's
hook commits. Usage: tools/mkmanifest.py"""
import json, subprocess, os
root = os.path.dirname(os.path.dirname(os.path.abspath(__file__)))
claims = json.load(open(os.path.join(root, "tools", "claims.json")))
commits = subprocess.run(["git", "-C", "/repo", "log", "--format=%H %s"], capture_output=True, text=True).stdout.splitlines()
hook_commits = [l.split()[0] for l in commits if l.split(" ", 1)[1].startswith("verif:")]
checks = []
for pid in sorted(claims["claimed"]):
    c = claims["claimed"][pid]
    checks.append({
        "property_id": pid,
        "quick_cmd": "./check.sh %s quick" % pid,
        "thorough_cmd": "./check.sh %s thorough" % pid,
        "evidence_file": "/verif/evidence/%s.json" % pid,
        "replay_cmd_template": "./bin/govc replay {path}",
        "engine": "govc",
        "level_claimed": {"category": "proof", "text": c["text"], "design_ref": c.get("design_ref", "DESIGN.md section 5, " + pid)},
        "level_note": c["note"],
        "technique": c.get("technique", "contract-based deductive verification: weakest-precondition VCs generated from go/ssa of the real functions, contracts as //@ comments in /repo, discharged by z3/cvc5"),
    })
na = [{"property_id": pid, "reason": r} for pid, r in sorted(claims["not_applicable"].items())]
m = {
    "version": 1,
    "setup_cmd": "./setup.sh",
    "hooks": {
        "guard": "verif",
        "enable": "-tags verif (contract files zz_contracts_verif.go are comment-only and carry //go:build verif)",
        "baseline_off_cmd": "cd /repo && GOFLAGS=-mod=mod go test -json -vet=off -count=1 -timeout 25m ./...",
        "source_commits": hook_commits,
        "add_only": True,
    },
    "engines": [{"name": "govc", "path": "/verif/govc", "serves_properties": sorted(claims["claimed"]),
                 "kind_free_text": "self-written deductive verifier for Go: contracts (requires/ensures/invariants/sinks/call events) on the real functions, VC generation over go/ssa NaiveForm, one SMT query per obligation raced on z3 4.8.12, z3 5.1.0 and cvc5 1.0"}],
    "checks": checks,
    "notes": claims.get("notes", ""),
    "not_applicable": na,
}
json.dump(m, open(os.path.join(root, "MANIFEST.json"), "w"), indent=1)
print("wrote MANIFEST.json: %d checks, %d not_applicable" % (len(checks), len(na)))
