#!/usr/bin/env python3
# suite_vs_baseline.py <head.json>: tests in /root/.vp/BASELINE.json's stable_pass that do not pass in a `go test -json` log.
import json,sys
base=set(json.load(open('/root/.vp/BASELINE.json'))['stable_pass'])
res={}
for l in open(sys.argv[1]):
    try: e=json.loads(l)
    except Exception: continue
    if e.get('Action') in ('pass','fail','skip') and e.get('Test'):
        res[e['Package']+'::'+e['Test']]=e['Action']
lost=sorted(t for t in base if res.get(t)!='pass')
print('stable_pass',len(base),'seen',len(res),'not passing:',len(lost))
for t in lost: print('  ',t,res.get(t))
