#!/usr/bin/env python3
# suite_compare.py <base.json> <head.json>: tests that pass in base (go test -json) but do not pass in head.
import json,sys
def load(p):
    res={}
    for l in open(p):
        try: e=json.loads(l)
        except Exception: continue
        if e.get('Action') in ('pass','fail','skip') and e.get('Test'):
            res[(e['Package'],e['Test'])]=e['Action']
    return res
b=load(sys.argv[1]); h=load(sys.argv[2])
bp={k for k,v in b.items() if v=='pass'}; hp={k for k,v in h.items() if v=='pass'}
print('base pass',len(bp),'head pass',len(hp))
lost=sorted(bp-hp)
print('pass at base but not at head:',len(lost))
for k in lost: print('  ',k,h.get(k))
