#!/bin/bash
# confirm_seed.sh <dir-with-patch.diff-and-zz_seed_demo_test.go> <package-dir> [test-regex]
# Confirms a seeded change in a scratch worktree: the demo passes on the unchanged tree and fails with the patch.
export GOFLAGS=-mod=mod GOPROXY=off GOSUMDB=off GOTOOLCHAIN=local
d=$1; pkg=$2; re=${3:-Seed}
wt=$(mktemp -d /tmp/wt-confirm-XXXX); rmdir "$wt"
git -C /repo worktree add -q --detach "$wt" HEAD || exit 2
cp "$d/zz_seed_demo_test.go" "$wt/$pkg/zz_seed_demo_test.go"
(cd "$wt" && go test -count=1 -timeout 300s -run "$re" "./$pkg/" > /tmp/confirm_clean.log 2>&1); a=$?
(cd "$wt" && git apply "$d/patch.diff" && go test -count=1 -timeout 300s -run "$re" "./$pkg/" > /tmp/confirm_patched.log 2>&1); b=$?
echo "clean exit=$a ($(tail -1 /tmp/confirm_clean.log)); patched exit=$b ($(grep -m1 -- '--- FAIL' /tmp/confirm_patched.log))"
git -C /repo worktree remove --force "$wt"; git -C /repo worktree prune
