#!/bin/sh
# Build the govc verifier offline from files on disk only.
set -e
cd "$(dirname "$0")/govc"
export GOFLAGS=-mod=mod GOPROXY=off GOSUMDB=off GOTOOLCHAIN=local
mkdir -p ../bin
go build -o ../bin/govc .
