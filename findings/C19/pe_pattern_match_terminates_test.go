// Package directory: vcr/pe (package pe)
//
// Scratch test for a violation of C19 in the UNMODIFIED code (it FAILS on the unmodified tree):
// a presentation definition (received from a remote verifier / authorization server, or from an API client) can carry a
// filter pattern with nested quantifiers. matchFilter compiles it with regexp2 (a backtracking engine) and never sets
// regexp2.Regexp.MatchTimeout, so matching it against an ordinary 47 character credential value does not terminate
// in any practical amount of time (run time doubles with every extra character: 27 chars took 17s on the test machine).
package pe

import (
	"encoding/json"
	"testing"
	"time"

	"github.com/nuts-foundation/go-did/vc"
	"github.com/stretchr/testify/require"
)

func TestVerifReplayPatternMatchTerminates(t *testing.T) {
	const definitionJSON = `{
  "id": "pd",
  "input_descriptors": [{
    "id": "1",
    "constraints": {"fields": [{
      "path": ["$.credentialSubject.id"],
      "filter": {"type": "string", "pattern": "^(.*)*=$"}
    }]}
  }]
}`
	const credentialJSON = `{
  "@context": ["https://www.w3.org/2018/credentials/v1"],
  "type": ["VerifiableCredential", "ExampleCredential"],
  "issuer": "did:web:example.com",
  "issuanceDate": "2024-01-01T00:00:00Z",
  "credentialSubject": {"id": "did:web:example.com:iam:holder-0123456789abcdef"}
}`
	definition, err := ParsePresentationDefinition([]byte(definitionJSON))
	require.NoError(t, err, "definition is schema-valid")
	var walletCredential vc.VerifiableCredential
	require.NoError(t, json.Unmarshal([]byte(credentialJSON), &walletCredential))

	done := make(chan struct{})
	go func() {
		defer close(done)
		_, _, _ = definition.Match([]vc.VerifiableCredential{walletCredential})
	}()
	select {
	case <-done:
	case <-time.After(20 * time.Second):
		t.Fatal("PresentationDefinition.Match did not return within 20s (regexp2 backtracking without MatchTimeout)")
	}
}
