// Replay of finding #52 (C19), package directory vcr/pe: a presentation definition that did not go through the JSON schema
// (presentation_definition passed by value to the OpenID4VP wallet, or one retrieved from a remote presentation definition
// endpoint) could carry null input descriptors / submission requirements, which matching dereferenced. Panicked before the fix.
package pe

import (
	"encoding/json"
	"testing"

	"github.com/nuts-foundation/go-did/vc"
)

func TestVerifReplayDefinitionWithNullEntries(t *testing.T) {
	for _, raw := range []string{
		`{"id":"x","input_descriptors":[null]}`,
		`{"id":"x","input_descriptors":[],"submission_requirements":[null]}`,
		`{"id":"x","input_descriptors":[],"submission_requirements":[{"name":"n","rule":"all","from_nested":[null]}]}`,
	} {
		t.Run(raw, func(t *testing.T) {
			defer func() {
				if r := recover(); r != nil {
					t.Fatalf("panicked: %v", r)
				}
			}()
			// decoded as the OpenID4VP wallet and the IAM HTTP client do (no schema)
			var pd *PresentationDefinition
			if err := json.Unmarshal([]byte(raw), &pd); err != nil {
				t.Log("refused:", err)
				return
			}
			// what the wallet does with it (holder.BuildSubmission -> PresentationSubmissionBuilder.Build)
			pd.CredentialsRequired()
			_, _, err := pd.Match([]vc.VerifiableCredential{{}})
			t.Log(err)
		})
	}
}
