// Replay of finding #51 (C19), package directory auth/api/iam: client_metadata=null and presentation_definition=null made
// handleAuthorizeRequestFromVerifier dereference nil (json.Unmarshal of null into a pointer succeeds and leaves it nil). Failed before the fix.
package iam

import (
	"runtime/debug"
	"context"
	"testing"

	"github.com/nuts-foundation/nuts-node/auth/oauth"
	"github.com/nuts-foundation/nuts-node/http/user"
	"github.com/nuts-foundation/nuts-node/vcr/pe"
	"go.uber.org/mock/gomock"
)

func TestVerifReplayNullRequestParameters(t *testing.T) {
	responseURI := "https://example.com/iam/verifier/response"
	clientMetadata := oauth.OAuthClientMetadata{VPFormats: oauth.DefaultOpenIDSupportedFormats()}
	defaultParams := func() map[string]interface{} {
		return map[string]interface{}{
			oauth.ClientIDParam:           verifierDID.String(),
			oauth.ClientIDSchemeParam:     entityClientIDScheme,
			oauth.ClientMetadataURIParam:  "https://example.com/.well-known/authorization-server/iam/verifier",
			oauth.NonceParam:              "nonce",
			oauth.PresentationDefUriParam: "https://example.com/iam/verifier/presentation_definition?scope=test",
			oauth.ResponseModeParam:       responseModeDirectPost,
			oauth.ResponseURIParam:        responseURI,
			oauth.ResponseTypeParam:       oauth.VPTokenResponseType,
			oauth.ScopeParam:              "test",
			oauth.StateParam:              "state",
		}
	}
	httpRequestCtx, _ := user.CreateTestSession(context.Background(), holderSubjectID)
	run := func(t *testing.T, f func(ctx *testCtx)) {
		defer func() {
			if r := recover(); r != nil {
				t.Errorf("PANIC: %v\n%s", r, debug.Stack())
			}
		}()
		ctx := newTestClient(t)
		// once the null is refused, the error is reported to the verifier
		ctx.iamClient.EXPECT().PostError(gomock.Any(), gomock.Any(), gomock.Any(), gomock.Any()).Return("https://example.com/redirect", nil).AnyTimes()
		f(ctx)
	}
	t.Run("client_metadata=null", func(t *testing.T) {
		run(t, func(ctx *testCtx) {
			params := defaultParams()
			delete(params, oauth.ClientMetadataURIParam)
			params[oauth.ClientMetadataParam] = "null"
			ctx.iamClient.EXPECT().PresentationDefinition(gomock.Any(), gomock.Any()).Return(&pe.PresentationDefinition{}, nil).AnyTimes()
			_, err := ctx.client.handleAuthorizeRequestFromVerifier(httpRequestCtx, holderSubjectID, params, pe.WalletOwnerOrganization)
			t.Log(err)
		})
	})
	t.Run("presentation_definition=null", func(t *testing.T) {
		run(t, func(ctx *testCtx) {
			params := defaultParams()
			delete(params, oauth.PresentationDefUriParam)
			params[oauth.PresentationDefParam] = "null"
			ctx.iamClient.EXPECT().ClientMetadata(gomock.Any(), gomock.Any()).Return(&clientMetadata, nil).AnyTimes()
			_, err := ctx.client.handleAuthorizeRequestFromVerifier(httpRequestCtx, holderSubjectID, params, pe.WalletOwnerOrganization)
			t.Log(err)
		})
	})
}
