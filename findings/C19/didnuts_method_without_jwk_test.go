// Package directory: vdr/didnuts (package didnuts)
//
// Scratch test for violations of C19 in the UNMODIFIED code (it FAILS on the unmodified tree):
// DID document payloads of network transactions (received from peers) that make ambassador.callback panic.
//  1. "verificationMethod":[null] together with a verification relationship given as reference: the nil pointer is
//     dereferenced inside go-did (did.resolveVerificationRelationship, reached through json.Unmarshal in callback),
//     that is before nilEntryValidator gets the chance to reject the document.
//  2. a verification method without publicKeyJwk (absent, or another key encoding such as publicKeyBase58):
//     did.VerificationMethod.JWK() returns (nil, nil) and verificationMethodValidator.verifyThumbprint calls a method
//     on the nil jwk.Key (validators.go, keyAsJWK.Remove).
package didnuts

import (
	"fmt"
	"testing"
	"time"

	"github.com/nuts-foundation/nuts-node/crypto/hash"
	"github.com/stretchr/testify/assert"
)

func TestVerifReplayMethodWithoutJWKMustNotPanic(t *testing.T) {
	payloads := map[string]string{
		"verification method without key":      `{"@context":["https://www.w3.org/ns/did/v1"],"id":"did:nuts:123","verificationMethod":[{"id":"did:nuts:123#1","type":"JsonWebKey2020","controller":"did:nuts:123"}]}`,
		"embedded method without key":          `{"@context":["https://www.w3.org/ns/did/v1"],"id":"did:nuts:123","assertionMethod":[{"id":"did:nuts:123#1","type":"JsonWebKey2020","controller":"did:nuts:123"}]}`,
		"verification method with base58 key":  `{"@context":["https://www.w3.org/ns/did/v1"],"id":"did:nuts:123","verificationMethod":[{"id":"did:nuts:123#1","type":"Ed25519VerificationKey2018","controller":"did:nuts:123","publicKeyBase58":"abc"}]}`,
	}
	for name, payload := range payloads {
		t.Run(name, func(t *testing.T) {
			tx := testTransaction{payloadType: DIDDocumentType, payloadHash: hash.SHA256Sum([]byte(payload)), signingTime: time.Now()}
			var err error
			panicked := func() (r interface{}) {
				defer func() { r = recover() }()
				err = (&ambassador{}).callback(tx, []byte(payload))
				return nil
			}()
			assert.Nil(t, panicked, "callback panicked")
			if panicked == nil {
				assert.Error(t, err, fmt.Sprintf("malformed document must be rejected: %s", payload))
			}
		})
	}
}
