package v2

// Demonstration for finding #6 (C19/C15): on a node without a node DID, Configure never sets
// privatePayloadReceiver. Any peer that sends a TransactionPayload message for a known transaction
// whose payload hash matches (the payload of a public transaction is public knowledge) reaches
// p.privatePayloadReceiver.Finished(ref) on a nil interface - inside a bare goroutine (handleASync),
// i.e. the process exits.

import (
	"context"
	"testing"

	"github.com/nuts-foundation/nuts-node/crypto/hash"
	"github.com/nuts-foundation/nuts-node/network/dag"
	"go.uber.org/mock/gomock"
)

func TestVerifReplayPayloadWithoutNodeDID(t *testing.T) {
	payload := []byte("Hello, World!")
	tx, _, _ := dag.CreateTestTransactionEx(0, hash.SHA256Sum(payload), nil)
	p, mocks := newTestProtocol(t, nil)
	p.privatePayloadReceiver = nil // what Configure leaves behind when no node DID is configured
	mocks.State.EXPECT().GetTransaction(gomock.Any(), tx.Ref()).Return(tx, nil)
	mocks.State.EXPECT().WritePayload(context.Background(), tx, tx.PayloadHash(), payload)
	defer func() {
		if r := recover(); r != nil {
			t.Fatalf("VIOLATION C19: handler panicked on a TransactionPayload message from a peer: %v", r)
		}
	}()
	_ = p.handleTransactionPayload(context.Background(), connection, &Envelope{Message: &Envelope_TransactionPayload{&TransactionPayload{TransactionRef: tx.Ref().Slice(), Data: payload}}})
}
