package pe

// Replay for C19 / C12 (finding #4): a schema-valid submission requirement {"rule":"pick","min":1,"from":"A"}
// (no max, no count) makes apply() dereference the nil Max when the presentation definition is matched.

import (
	"encoding/json"
	"testing"

	"github.com/nuts-foundation/go-did/vc"
	"github.com/stretchr/testify/assert"
	"github.com/stretchr/testify/require"
)

func TestVerifReplaySubmissionRequirementPickWithoutMax(t *testing.T) {
	var definition PresentationDefinition
	require.NoError(t, json.Unmarshal([]byte(`{
  "id": "pd",
  "submission_requirements": [{"name": "pick one", "rule": "pick", "min": 1, "from": "A"}],
  "input_descriptors": [{"id": "1", "group": ["A"], "constraints": {"fields": [{"path": ["$.id"], "filter": {"type": "string", "const": "1"}}]}}]
}`), &definition))
	var credential vc.VerifiableCredential
	require.NoError(t, json.Unmarshal([]byte(`{"id": "1", "type": ["VerifiableCredential"], "credentialSubject": {"id": "did:example:1"}}`), &credential))
	assert.NotPanics(t, func() {
		_, _, _ = definition.Match([]vc.VerifiableCredential{credential})
	})
}
