package dpop

// Replay for C19 (finding #5): DPoP proofs are attacker-supplied. strip() dereferences the nil URL that
// url.Parse returns for an unparsable htu / request URL, and HTU()/HTM() assert claim values to
// string without checking, so a signed proof with "htu": 5 panics when it is matched.

import (
	"testing"

	"github.com/lestrrat-go/jwx/v2/jwt"
	"github.com/stretchr/testify/assert"
	"github.com/stretchr/testify/require"
)

func TestVerifReplayDPoPClaimsNotStrings(t *testing.T) {
	t.Run("unparsable url", func(t *testing.T) {
		assert.NotPanics(t, func() { _ = strip("http://%zz") })
	})
	t.Run("htu is a number", func(t *testing.T) {
		token := jwt.New()
		require.NoError(t, token.Set(HTUKey, 5))
		assert.NotPanics(t, func() { _ = DPoP{Token: token}.HTU() })
	})
	t.Run("htm is a number", func(t *testing.T) {
		token := jwt.New()
		require.NoError(t, token.Set(HTMKey, 5))
		assert.NotPanics(t, func() { _ = DPoP{Token: token}.HTM() })
	})
}
