package resolver

// Replay for C19 (finding #3): a resolved (remote, e.g. did:web) DID document whose JSON-LD context
// carries a non-string "@base" makes DIDKeyResolver.baseUrl panic on an unchecked type assertion.

import (
	"encoding/json"
	"testing"

	"github.com/nuts-foundation/go-did/did"
	"github.com/stretchr/testify/assert"
	"github.com/stretchr/testify/require"
)

func TestVerifReplayDIDDocumentBaseNotString(t *testing.T) {
	var doc did.Document
	require.NoError(t, json.Unmarshal([]byte(`{"@context":["https://www.w3.org/ns/did/v1",{"@base":5}],"id":"did:web:example.com"}`), &doc))
	assert.NotPanics(t, func() {
		_ = DIDKeyResolver{}.baseUrl(&doc)
	})
}
