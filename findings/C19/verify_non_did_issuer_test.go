package verifier

// Demonstration for finding #7 (C19/C01): a credential whose issuer is not a DID
// (default validator only requires a non-empty issuer) makes verifier.Verify dereference the nil
// *did.DID returned by the ignored did.ParseDID error when the signature is to be checked.

import (
	"encoding/json"
	"testing"
	"time"

	"github.com/nuts-foundation/go-did/vc"
	"github.com/nuts-foundation/nuts-node/vcr/revocation"
	"github.com/nuts-foundation/nuts-node/vcr/trust"
	"github.com/nuts-foundation/nuts-node/vdr/resolver"
	"go.uber.org/mock/gomock"
)

func TestVerifReplayNonDIDIssuer(t *testing.T) {
	const input = `{"@context":["https://www.w3.org/2018/credentials/v1"],"id":"https://example.com/1",
	 "type":["VerifiableCredential"],"issuer":"https://example.com/issuer",
	 "issuanceDate":"2020-01-01T00:00:00Z","credentialSubject":{"id":"did:nuts:abc"}}`
	var cred vc.VerifiableCredential
	if err := json.Unmarshal([]byte(input), &cred); err != nil {
		t.Fatal(err)
	}
	ctrl := gomock.NewController(t)
	store := NewMockStore(ctrl)
	store.EXPECT().GetRevocations(gomock.Any()).Return(nil, ErrNotFound).AnyTimes()
	v := &verifier{
		store:            store,
		didResolver:      resolver.NewMockDIDResolver(ctrl),
		trustConfig:      trust.NewConfig(t.TempDir() + "/trust.yaml"),
		credentialStatus: revocation.NewStatusList2021(nil, nil, ""),
	}
	defer func() {
		if r := recover(); r != nil {
			t.Fatalf("VIOLATION C19: Verify panicked on a credential with a non-DID issuer: %v", r)
		}
	}()
	now := time.Now()
	if err := v.Verify(cred, true, true, &now); err == nil {
		t.Fatal("credential with non-DID issuer verified")
	}
}
