// Package directory: vdr/didweb (package didweb)
//
// Scratch test for violations of C19 in the UNMODIFIED code (it FAILS on the unmodified tree); it uses a stub HTTP
// client, no network or TLS involved.
//  1. A did.json served by a remote web server with "verificationMethod":[null] and a relationship reference makes
//     Resolver.Resolve panic (nil dereference inside go-did's document unmarshalling).
//  2. did:web documents are not validated: a JsonWebKey2020 verification method without publicKeyJwk is returned as is,
//     and resolving the key for signature verification (resolver.DIDKeyResolver.ResolveKeyByID / ResolveKey) then
//     panics inside did.VerificationMethod.PublicKey() (method call on the nil jwk.Key returned by JWK()).
package didweb

import (
	"bytes"
	"io"
	"net/http"
	"testing"

	"github.com/nuts-foundation/go-did/did"
	"github.com/nuts-foundation/nuts-node/vdr/resolver"
	"github.com/stretchr/testify/assert"
)

type verifReplayDoer struct{ body string }

func (s verifReplayDoer) Do(_ *http.Request) (*http.Response, error) {
	return &http.Response{
		StatusCode: http.StatusOK,
		Status:     "200 OK",
		Header:     http.Header{"Content-Type": []string{"application/did+json"}},
		Body:       io.NopCloser(bytes.NewBufferString(s.body)),
	}, nil
}

func TestVerifReplayDIDWebDocumentsMustNotPanic(t *testing.T) {
	id := did.MustParseDID("did:web:example.com")
	t.Run("null verification method + reference panics in Resolve", func(t *testing.T) {
		r := Resolver{HttpClient: verifReplayDoer{body: `{"@context":["https://www.w3.org/ns/did/v1"],"id":"did:web:example.com","verificationMethod":[null],"assertionMethod":["did:web:example.com#1"]}`}}
		panicked := func() (p interface{}) {
			defer func() { p = recover() }()
			_, _, _ = r.Resolve(id, nil)
			return nil
		}()
		assert.Nil(t, panicked, "didweb.Resolver.Resolve panicked")
	})
	t.Run("verification method without key material panics in key resolution", func(t *testing.T) {
		r := Resolver{HttpClient: verifReplayDoer{body: `{"@context":["https://www.w3.org/ns/did/v1"],"id":"did:web:example.com","assertionMethod":[{"id":"did:web:example.com#1","type":"JsonWebKey2020","controller":"did:web:example.com"}]}`}}
		keyResolver := resolver.DIDKeyResolver{Resolver: r}
		panicked := func() (p interface{}) {
			defer func() { p = recover() }()
			_, _ = keyResolver.ResolveKeyByID("did:web:example.com#1", nil, resolver.AssertionMethod)
			return nil
		}()
		assert.Nil(t, panicked, "DIDKeyResolver.ResolveKeyByID panicked")
		panicked = func() (p interface{}) {
			defer func() { p = recover() }()
			_, _, _ = keyResolver.ResolveKey(id, nil, resolver.AssertionMethod)
			return nil
		}()
		assert.Nil(t, panicked, "DIDKeyResolver.ResolveKey panicked")
	})
	t.Run("null relationship entry panics in key resolution", func(t *testing.T) {
		r := Resolver{HttpClient: verifReplayDoer{body: `{"@context":["https://www.w3.org/ns/did/v1"],"id":"did:web:example.com","assertionMethod":[null]}`}}
		keyResolver := resolver.DIDKeyResolver{Resolver: r}
		panicked := func() (p interface{}) {
			defer func() { p = recover() }()
			_, _ = keyResolver.ResolveKeyByID("did:web:example.com#1", nil, resolver.AssertionMethod)
			return nil
		}()
		assert.Nil(t, panicked, "DIDKeyResolver.ResolveKeyByID panicked")
		panicked = func() (p interface{}) {
			defer func() { p = recover() }()
			_, _, _ = keyResolver.ResolveKey(id, nil, resolver.AssertionMethod)
			return nil
		}()
		assert.Nil(t, panicked, "DIDKeyResolver.ResolveKey panicked")
	})
}
