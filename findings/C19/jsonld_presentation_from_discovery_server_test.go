// Replay of finding #54 (C19), package directory discovery. It failed (panic) before the fix.
//
// A Discovery Server (a remote server the node polls) answers GET /discovery/{serviceID} with an entry that is a
// JSON-LD presentation instead of a JWT. The client stores every entry before verifying it
// (clientUpdater.updateService -> sqlStore.add -> storePresentation), and storePresentation calls
// presentation.JWT().Expiration(): JWT() is nil for a JSON-LD presentation -> nil pointer dereference (discovery/store.go:220).
// updateService runs in the module's refresh goroutine (Module.Start -> go m.update() -> clientUpdater.update), which has
// no recover(): the node process exits.
package discovery

import (
	"context"
	"runtime/debug"
	"testing"

	"github.com/nuts-foundation/go-did/vc"
	"github.com/nuts-foundation/nuts-node/discovery/api/server/client"
	"github.com/nuts-foundation/nuts-node/storage"
	"github.com/stretchr/testify/require"
	"go.uber.org/mock/gomock"
)

func TestVerifReplayJSONLDPresentationFromDiscoveryServer(t *testing.T) {
	storageEngine := storage.NewTestStorageEngine(t)
	require.NoError(t, storageEngine.Start())
	store, err := newSQLStore(storageEngine.GetSQLDatabase(), testDefinitions())
	require.NoError(t, err)
	ctx := context.Background()
	serviceDefinition := testDefinitions()[testServiceID]
	ctrl := gomock.NewController(t)
	httpClient := client.NewMockHTTPClient(ctrl)
	updater := newClientUpdater(testDefinitions(), store, alwaysOkVerifier, httpClient)

	// what DefaultHTTPClient.Get returns for the response body
	// {"seed":"...","timestamp":1,"entries":{"1":{"@context":[...],"id":"did:example:1#1","type":"VerifiablePresentation","proof":{...}}}}
	vp, err := vc.ParseVerifiablePresentation(`{"@context":["https://www.w3.org/2018/credentials/v1"],"id":"did:example:1#1","type":"VerifiablePresentation","proof":{"type":"JsonWebSignature2020","verificationMethod":"did:example:1#key"}}`)
	require.NoError(t, err)
	httpClient.EXPECT().Get(ctx, serviceDefinition.Endpoint, 0).Return(map[string]vc.VerifiablePresentation{"1": *vp}, testSeed, 1, nil)

	defer func() {
		if r := recover(); r != nil {
			t.Fatalf("updateService panicked on a response of the Discovery Server: %v\n%s", r, debug.Stack())
		}
	}()
	err = updater.updateService(ctx, serviceDefinition)
	t.Logf("no panic, err: %v", err)
}
