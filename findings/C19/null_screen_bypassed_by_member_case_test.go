// Replay of finding #50 (C19), package directory vdr/resolver: the null-entry screen of UnmarshalDocument was bypassed by a
// second, differently cased "verificationmethod" member; go-did then dereferenced the null entry. Failed before fix.
package resolver

import (
	"testing"

	"github.com/nuts-foundation/go-did/did"
)

func TestVerifReplayNullScreenBypassedByMemberCase(t *testing.T) {
	// encoding/json matches member names case-insensitively and lets the last match win:
	// - the screen (struct with `json:"verificationMethod"`) sees the members in document order, so it ends up with [] and finds no null entry;
	// - go-did first normalizes through a map (both members survive as different keys), re-marshals it (keys sorted:
	//   "verificationMethod" < "verificationmethod") and decodes that into its struct, which ends up with [null].
	// The authentication relationship by reference makes go-did walk verificationMethod and dereference the nil entry.
	input := `{"id":"did:web:example.com","verificationmethod":[null],"verificationMethod":[],"authentication":["did:web:example.com#k"]}`
	defer func() {
		if r := recover(); r != nil {
			t.Fatalf("UnmarshalDocument panicked: %v", r)
		}
	}()
	var doc did.Document
	err := UnmarshalDocument([]byte(input), &doc)
	t.Logf("err=%v", err)
}
