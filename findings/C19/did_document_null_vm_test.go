package didnuts

// Demonstration for finding #8 (C19/C09): a DID document received from the network whose
// verificationMethod (or a verification relationship) contains null makes the document validator
// dereference a nil *did.VerificationMethod (inside go-did's W3CSpecValidator).

import (
	"encoding/json"
	"testing"

	"github.com/nuts-foundation/go-did/did"
)

func TestVerifReplayDIDDocumentNullVerificationMethod(t *testing.T) {
	for _, input := range []string{
		`{"@context":["https://www.w3.org/ns/did/v1"],"id":"did:nuts:abc","verificationMethod":[null]}`,
		`{"@context":["https://www.w3.org/ns/did/v1"],"id":"did:nuts:abc","assertionMethod":[null]}`,
	} {
		var doc did.Document
		if err := json.Unmarshal([]byte(input), &doc); err != nil {
			continue // refused by the decoder: fine
		}
		func() {
			defer func() {
				if r := recover(); r != nil {
					t.Fatalf("VIOLATION C19: document validator panicked on %s: %v", input, r)
				}
			}()
			if err := NetworkDocumentValidator().Validate(doc); err == nil {
				t.Fatalf("document with null entry accepted: %s", input)
			}
		}()
	}
}
