package credential

// Demonstration for finding #2 (C19/C01): a NutsOrganizationCredential without "id" makes the
// validator dereference a nil *ssi.URI (the ID check of the default validator runs only afterwards).

import (
	"encoding/json"
	"testing"

	"github.com/nuts-foundation/go-did/vc"
)

func TestVerifReplayCredentialWithoutID(t *testing.T) {
	const input = `{"@context":["https://www.w3.org/2018/credentials/v1","https://nuts.nl/credentials/v1"],
	 "type":["VerifiableCredential","NutsOrganizationCredential"],"issuer":"did:nuts:abc",
	 "issuanceDate":"2024-01-01T00:00:00Z","credentialSubject":{"id":"did:nuts:abc","organization":{"name":"n","city":"c"}}}`
	var cred vc.VerifiableCredential
	if err := json.Unmarshal([]byte(input), &cred); err != nil {
		t.Fatal(err)
	}
	defer func() {
		if r := recover(); r != nil {
			t.Fatalf("VIOLATION C19: validator panicked on a credential without id: %v", r)
		}
	}()
	if err := FindValidator(cred).Validate(cred); err == nil {
		t.Fatal("credential without id was accepted")
	}
}
