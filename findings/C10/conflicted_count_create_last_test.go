package didstore

// Replay for C10 (finding #14): the conflicted-documents counter depends on arrival order.
// Two parallel updates (clock 1) arrive before the creation (clock 0). When the creation is inserted
// at the front of the event list there is no base event, applyFrom does not read the DID's
// conflicted flag, assumes "not conflicted before" and counts the same conflict a second time.

import (
	"testing"
	"time"

	"github.com/nuts-foundation/go-did/did"
	"github.com/stretchr/testify/assert"
	"github.com/stretchr/testify/require"
)

func TestVerifReplayConflictedCountCreateLast(t *testing.T) {
	create := did.Document{ID: testDID, Controller: []did.DID{testDID}}
	docA := did.Document{ID: testDID, Controller: []did.DID{testDID}, Service: []did.Service{testServiceA}}
	docB := did.Document{ID: testDID, Controller: []did.DID{testDID}, Service: []did.Service{testServiceB}}
	now := time.Now()
	txCreate := newTestTransaction(create)
	txCreate.Clock, txCreate.SigningTime = 0, now
	txA := newTestTransaction(docA, txCreate.Ref)
	txA.Clock, txA.SigningTime = 1, now.Add(time.Second)
	txB := newTestTransaction(docB, txCreate.Ref)
	txB.Clock, txB.SigningTime = 1, now.Add(2*time.Second)

	count := func(order ...func(s *store)) uint {
		s := NewTestStore(t)
		for _, f := range order {
			f(s)
		}
		n, err := s.ConflictedCount()
		require.NoError(t, err)
		return n
	}
	addCreate := func(s *store) { add(t, s, create, txCreate) }
	addA := func(s *store) { add(t, s, docA, txA) }
	addB := func(s *store) { add(t, s, docB, txB) }

	inOrder := count(addCreate, addA, addB)
	createLast := count(addA, addB, addCreate)
	assert.Equal(t, uint(1), inOrder, "create, A, B")
	assert.Equal(t, inOrder, createLast, "A, B, create: same set of transactions, same conflicted count")
}
