package didstore

// Replay for C10 (finding #11): the merged (conflicted) document is not deterministic.
// mergeControllers collects the controllers through a Go map and does not sort them, so merging the
// same two documents yields [c1 c2] or [c2 c1] depending on map iteration order: the conflicted
// document's hash differs between runs and between nodes.

import (
	"encoding/json"
	"testing"

	"github.com/nuts-foundation/go-did/did"
	"github.com/stretchr/testify/assert"
)

func TestVerifReplayMergeControllerOrder(t *testing.T) {
	c1 := did.MustParseDID("did:nuts:controller1")
	c2 := did.MustParseDID("did:nuts:controller2")
	docA := did.Document{ID: testDID, Controller: []did.DID{c1}}
	docB := did.Document{ID: testDID, Controller: []did.DID{c2}}
	first, _ := json.Marshal(mergeDocuments(docA, docB))
	for i := 0; i < 500; i++ {
		next, _ := json.Marshal(mergeDocuments(docA, docB))
		if !assert.Equal(t, string(first), string(next), "merge %d of the same two documents", i) {
			return
		}
	}
}
