// Scratch tests for observations on the UNMODIFIED code (C09). Belongs in package directory vdr/didnuts (package didnuts);
// uses testTransaction from ambassador_test.go. Every test PASSES on the unmodified code: each one asserts the
// behaviour that deviates from the property statement (so a pass = the deviation is present).
package didnuts

import (
	"crypto/ecdsa"
	"crypto/elliptic"
	"crypto/rand"
	"encoding/json"
	"testing"
	"time"

	"github.com/lestrrat-go/jwx/v2/jwk"
	ssi "github.com/nuts-foundation/go-did"
	"github.com/nuts-foundation/go-did/did"
	"github.com/nuts-foundation/nuts-node/crypto/hash"
	"github.com/nuts-foundation/nuts-node/network"
	"github.com/nuts-foundation/nuts-node/network/dag"
	"github.com/nuts-foundation/nuts-node/vdr/didnuts/didstore"
	"github.com/nuts-foundation/nuts-node/vdr/resolver"
	"github.com/stretchr/testify/assert"
	"github.com/stretchr/testify/require"
	"go.uber.org/mock/gomock"
)

type obsEnv struct {
	t     *testing.T
	store didstore.Store
	amb   *ambassador
	clock uint32
	now   time.Time
}

func newObsEnv(t *testing.T) *obsEnv {
	store := didstore.NewTestStore(t)
	nw := network.NewMockTransactions(gomock.NewController(t))
	nw.EXPECT().DiscoverServices(gomock.Any()).AnyTimes()
	amb := &ambassador{
		networkClient: nw,
		didStore:      store,
		keyResolver:   dag.SourceTXKeyResolver{Resolver: Resolver{Store: store}},
		didResolver:   &Resolver{Store: store},
	}
	return &obsEnv{t: t, store: store, amb: amb, now: time.Now().Add(-time.Hour)}
}

func obsKey(t *testing.T) *ecdsa.PrivateKey {
	k, err := ecdsa.GenerateKey(elliptic.P256(), rand.Reader)
	require.NoError(t, err)
	return k
}

// obsSelfDoc creates a well-formed self-controlled document for the key: DID = thumbprint of key
func obsSelfDoc(t *testing.T, key *ecdsa.PrivateKey) (did.Document, *did.VerificationMethod) {
	kidStr, err := DIDKIDNamingFunc(key.Public())
	require.NoError(t, err)
	kid := did.MustParseDIDURL(kidStr)
	vm, err := did.NewVerificationMethod(kid, ssi.JsonWebKey2020, kid.DID, key.Public())
	require.NoError(t, err)
	doc := did.Document{Context: []interface{}{did.DIDContextV1URI()}, ID: kid.DID}
	doc.AddCapabilityInvocation(vm)
	return doc, vm
}

func (e *obsEnv) tick() (uint32, time.Time) {
	e.clock++
	e.now = e.now.Add(time.Second)
	return e.clock, e.now
}

func (e *obsEnv) createRaw(payload []byte, key *ecdsa.PrivateKey) (testTransaction, error) {
	jwkKey, _ := jwk.FromRaw(key.Public())
	c, ts := e.tick()
	tx := testTransaction{
		clock:       c,
		signingKey:  jwkKey,
		signingTime: ts,
		ref:         hash.RandomHash(),
		payloadHash: hash.SHA256Sum(payload),
		payloadType: DIDDocumentType,
	}
	return tx, e.amb.callback(tx, payload)
}

func (e *obsEnv) create(doc did.Document, key *ecdsa.PrivateKey) (testTransaction, error) {
	payload, _ := json.Marshal(doc)
	return e.createRaw(payload, key)
}

func (e *obsEnv) update(doc did.Document, kid string, prevs ...hash.SHA256Hash) (testTransaction, error) {
	payload, _ := json.Marshal(doc)
	c, ts := e.tick()
	tx := testTransaction{
		clock:        c,
		signingKeyID: kid,
		signingTime:  ts,
		ref:          hash.RandomHash(),
		payloadHash:  hash.SHA256Sum(payload),
		payloadType:  DIDDocumentType,
		prevs:        prevs,
	}
	return tx, e.amb.callback(tx, payload)
}

func obsDeactivated(id did.DID) did.Document {
	return did.Document{Context: []interface{}{did.DIDContextV1URI()}, ID: id}
}


// Observation B: resolving by time (the 'legacy' controller resolution of the ambassador uses the signing time)
// returns the last ACTIVE version of a document that was deactivated BEFORE the requested time.
func TestVerifReplayResolveByTimeAfterDeactivation(t *testing.T) {
	e := newObsEnv(t)
	keyA := obsKey(t)
	docA, vmA := obsSelfDoc(t, keyA)
	txA, err := e.create(docA, keyA)
	require.NoError(t, err)
	_, err = e.update(obsDeactivated(docA.ID), vmA.ID.String(), txA.ref)
	require.NoError(t, err)

	_, _, err = Resolver{Store: e.store}.Resolve(docA.ID, nil)
	require.ErrorIs(t, err, resolver.ErrDeactivated)

	later := e.now.Add(time.Minute) // after the deactivation
	_, _, err = Resolver{Store: e.store}.Resolve(docA.ID, &resolver.ResolveMetadata{ResolveTime: &later})
	require.ErrorIs(t, err, resolver.ErrDeactivated, "a document deactivated before the requested time resolved as active")

	// the moment before the deactivation still resolves to the active version (signatures made then stay verifiable)
	assert.True(t, later.After(e.now))
}

