// Package directory: vdr/didnuts/didstore  (package didstore, in-package test)
//
// Scratch test on the UNMODIFIED code (C10): a 3-way fork in which two of the branches carry an entry with the same id
// but different contents. applyDocument visits the unconsumed branches in Go map order and mergeDocuments lets the
// second document win for equal ids, so the merged (conflicted) document, its hash and the order of the
// source transactions differ from store to store (and from run to run) for the same event set in the same arrival order.

package didstore

import (
	"encoding/json"
	"testing"
	"time"

	ssi "github.com/nuts-foundation/go-did"
	"github.com/nuts-foundation/go-did/did"
	"github.com/nuts-foundation/nuts-node/crypto/hash"
	"github.com/stretchr/testify/require"
)

func TestVerifReplayThreeWayForkSameIDDifferentContent(t *testing.T) {
	t0 := time.Now().Add(-time.Hour).Truncate(time.Second)
	sameID := ssi.MustParseURI("did:nuts:test#service")
	docA := did.Document{ID: testDID, Controller: []did.DID{testDID}, Service: []did.Service{{ID: sameID, Type: "t", ServiceEndpoint: "http://a"}}}
	docB := did.Document{ID: testDID, Controller: []did.DID{testDID}, Service: []did.Service{{ID: sameID, Type: "t", ServiceEndpoint: "http://b"}}}
	docC := did.Document{ID: testDID, Controller: []did.DID{testDID}, Service: []did.Service{testServiceA}}
	txA := newTestTransaction(docA)
	txA.SigningTime = t0
	txB := newTestTransaction(docB)
	txB.SigningTime = t0.Add(time.Second)
	txC := newTestTransaction(docC)
	txC.SigningTime = t0.Add(2 * time.Second)

	hashes := map[hash.SHA256Hash]string{}
	sourceOrders := map[string]int{}
	for i := 0; i < 40; i++ {
		store := NewTestStore(t)
		add(t, store, docA, txA)
		add(t, store, docB, txB)
		add(t, store, docC, txC)
		doc, meta, err := store.Resolve(testDID, nil)
		require.NoError(t, err)
		docBytes, _ := json.Marshal(doc)
		hashes[meta.Hash] = string(docBytes)
		order := ""
		for _, st := range meta.SourceTransactions {
			switch {
			case st.Equals(txA.Ref):
				order += "A"
			case st.Equals(txB.Ref):
				order += "B"
			case st.Equals(txC.Ref):
				order += "C"
			}
		}
		sourceOrders[order]++
	}
	t.Logf("source transaction orders seen: %v", sourceOrders)
	for h, d := range hashes {
		t.Logf("latest hash %s: %s", h, d)
	}
	require.Len(t, hashes, 1, "same events, same arrival order, different latest document")
	require.Len(t, sourceOrders, 1, "same events, same arrival order, different order of source transactions")
}
