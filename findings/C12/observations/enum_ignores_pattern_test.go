package pe

import (
	"testing"

	"github.com/stretchr/testify/require"
)

// filter {type: string, enum: [...], pattern: ...}: JSON Schema requires all keywords to hold; matchFilter returns from the enum branch and never looks at the pattern.
func TestExisting_EnumIgnoresPattern(t *testing.T) {
	pattern := "^x"
	match, _, err := matchFilter(Filter{Type: "string", Enum: []string{"nurse", "doctor"}, Pattern: &pattern}, "nurse")
	require.NoError(t, err)
	require.False(t, match, "value 'nurse' is in the enum but does not match pattern ^x")
}
