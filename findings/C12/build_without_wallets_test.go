package pe

// Replay for C12 / C19 (finding #21): PresentationSubmissionBuilder.Build with no wallet added reported
// success although credentials are required (errors.Join of zero errors is nil), and indexed holders[0]
// of an empty list when none are required.

import (
	"encoding/json"
	"testing"

	"github.com/stretchr/testify/assert"
	"github.com/stretchr/testify/require"
)

func TestVerifReplayBuildWithoutWallets(t *testing.T) {
	var required PresentationDefinition
	require.NoError(t, json.Unmarshal([]byte(`{"id":"pd","input_descriptors":[{"id":"1","constraints":{"fields":[{"path":["$.id"]}]}}]}`), &required))
	require.True(t, required.CredentialsRequired())
	b := required.PresentationSubmissionBuilder()
	_, _, err := b.Build("ldp_vp")
	assert.Error(t, err, "credentials are required, there is no wallet: no selection exists")

	var optional PresentationDefinition
	require.NoError(t, json.Unmarshal([]byte(`{"id":"pd","input_descriptors":[]}`), &optional))
	require.False(t, optional.CredentialsRequired())
	b2 := optional.PresentationSubmissionBuilder()
	assert.NotPanics(t, func() { _, _, _ = b2.Build("ldp_vp") })
}
