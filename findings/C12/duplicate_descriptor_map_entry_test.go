// Replay for C12 (finding #25), written by the seeded-change sub-agent as an observation on the unmodified code.
package pe

import (
	"encoding/json"
	"testing"

	ssi "github.com/nuts-foundation/go-did"
	"github.com/nuts-foundation/go-did/vc"
	"github.com/nuts-foundation/nuts-node/vcr/signature/proof"
	"github.com/stretchr/testify/assert"
	"github.com/stretchr/testify/require"
)

// Observation 3: a surplus (duplicate id) descriptor map entry that points to a different credential is accepted,
// as long as the last entry for that id is the right one.
func TestVerifReplayDuplicateDescriptorMapEntryAccepted(t *testing.T) {
	id1 := ssi.MustParseURI("did:example:123#first-vc")
	id2 := ssi.MustParseURI("did:example:123#second-vc")
	vp := vc.VerifiablePresentation{
		VerifiableCredential: []vc.VerifiableCredential{{ID: &id1}, {ID: &id2}},
		Proof:                []interface{}{proof.LDProof{VerificationMethod: id1}},
	}
	vpBytes, _ := json.Marshal(vp)
	envelope, err := ParseEnvelope(vpBytes)
	require.NoError(t, err)
	constant := id1.String()
	definition := PresentationDefinition{InputDescriptors: []*InputDescriptor{{
		Id:          "1",
		Constraints: &Constraints{Fields: []Field{{Path: []string{"$.id"}, Filter: &Filter{Type: "string", Const: &constant}}}},
	}}}
	submission := PresentationSubmission{DescriptorMap: []InputDescriptorMappingObject{
		{Id: "1", Path: "$.verifiableCredential[1]", Format: "ldp_vc"}, // forged: second-vc does not satisfy descriptor 1
		{Id: "1", Path: "$.verifiableCredential[0]", Format: "ldp_vc"}, // right one, wins because it is last
	}}

	_, err = submission.Validate(*envelope, definition)

	assert.Error(t, err, "descriptor map with a surplus, wrong entry for input descriptor 1 is accepted")
}

