// Replay for C12 / C19 (finding #24), written by the seeded-change sub-agent as observations on the unmodified code:
// matchFilter falls through to the const / pattern / type-only checks with the ARRAY itself when no element of an array value matches.
package pe

import (
	"testing"

	"github.com/nuts-foundation/go-did/vc"
	"github.com/stretchr/testify/assert"
	"github.com/stretchr/testify/require"
)

// Observation 1: a pattern filter on an array valued property (e.g. $.type) panics when no element matches,
// instead of reporting "no match".
func TestVerifReplayPatternOnArrayWithoutMatchingElementPanics(t *testing.T) {
	pd, err := ParsePresentationDefinition([]byte(`{
	  "id": "pd",
	  "input_descriptors": [{
	    "id": "d1",
	    "constraints": {"fields": [{"path": ["$.type"], "filter": {"type": "string", "pattern": "^NutsOrganizationCredential$"}}]}
	  }]
	}`))
	require.NoError(t, err)
	other, err := vc.ParseVerifiableCredential(`{
	  "@context": ["https://www.w3.org/2018/credentials/v1"],
	  "id": "did:example:issuer#1",
	  "type": ["VerifiableCredential", "SomeOtherCredential"],
	  "issuer": "did:example:issuer",
	  "issuanceDate": "2024-01-01T00:00:00Z",
	  "credentialSubject": {"id": "did:example:holder"}
	}`)
	require.NoError(t, err)

	assert.NotPanics(t, func() {
		_, _, err := pd.Match([]vc.VerifiableCredential{*other})
		assert.ErrorIs(t, err, ErrNoCredentials)
	})
}

// Observation 2: type filter "string" is satisfied by an array that contains no string at all.
func TestVerifReplayArrayOfNumbersSatisfiesStringType(t *testing.T) {
	match, _, err := matchFilter(Filter{Type: "string"}, []interface{}{1.0, 2.0})
	require.NoError(t, err)
	assert.False(t, match, "array without any string element satisfies {type: string}")
}

