package iam

// Replay for C02 (finding #17): "not all presentations have the same credential subject ID" can be
// bypassed. validatePresentationSigner returns the signer of a presentation WITHOUT credentials
// without comparing it to the subject established by the presentations before it, and the caller then
// adopts that signer as the new expected subject. [VP of A with A's credential, empty VP of B, VP of B
// with B's credential] passes, although [VP of A, VP of B] is refused.

import (
	"testing"

	"github.com/nuts-foundation/go-did/did"
	"github.com/nuts-foundation/go-did/vc"
	"github.com/nuts-foundation/nuts-node/vcr/test"
	"github.com/stretchr/testify/assert"
	"github.com/stretchr/testify/require"
)

func TestVerifReplayEmptyPresentationResetsSubject(t *testing.T) {
	credentialA := test.ValidNutsOrganizationCredential(t)
	subjectA, _ := credentialA.SubjectDID()
	subjectB := did.MustParseDID("did:web:example.com:other")
	presentations := []vc.VerifiablePresentation{
		test.CreateJSONLDPresentation(t, *subjectA, nil, credentialA),
		test.CreateJSONLDPresentation(t, subjectB, nil), // no credentials
		test.CreateJSONLDPresentation(t, subjectB, nil, test.JWTNutsOrganizationCredential(t, subjectB)),
	}
	// the loop of handleS2SAccessTokenRequest
	var credentialSubjectID did.DID
	var err error
	for _, presentation := range presentations {
		var subjectDID *did.DID
		if subjectDID, err = validatePresentationSigner(presentation, credentialSubjectID); err != nil {
			break
		}
		credentialSubjectID = *subjectDID
	}
	require.False(t, subjectA.Equals(subjectB))
	assert.EqualError(t, err, "not all presentations have the same credential subject ID",
		"credentials of two different subjects were accepted in one request")
}
