// Replay for C02 (finding #26), written by the seeded-change sub-agent as an observation on the unmodified code:
// it FAILS on the unmodified tree, showing that POST /internal/auth/v2/accesstoken/introspect_extended does not
// report the credential-derived claims that were established at issuance (while /introspect does).

package iam

import (
	"context"
	"encoding/json"
	"net/http"
	"net/http/httptest"
	"testing"
	"time"

	"github.com/stretchr/testify/assert"
	"github.com/stretchr/testify/require"
)

func TestVerifReplayExtendedIntrospectionDropsClaims(t *testing.T) {
	ctx := newTestClient(t)
	token := AccessToken{
		Token:                          "token",
		Issuer:                         "https://example.com/oauth2/issuer",
		ClientId:                       "https://example.com/oauth2/holder",
		IssuedAt:                       time.Now(),
		Expiration:                     time.Now().Add(time.Minute),
		Scope:                          "test",
		InputDescriptorConstraintIdMap: map[string]any{"organization_name": "Because we care B.V."},
	}
	require.NoError(t, ctx.client.accessTokenServerStore().Put(token.Token, token))
	reqCtx := context.WithValue(context.Background(), httpRequestContextKey{}, &http.Request{Header: http.Header{"Content-Type": {"application/x-www-form-urlencoded"}}})
	body := &TokenIntrospectionRequest{Token: token.Token}

	// the response bodies as the strict server handler writes them
	plain, err := ctx.client.IntrospectAccessToken(reqCtx, IntrospectAccessTokenRequestObject{Body: body})
	require.NoError(t, err)
	plainRecorder := httptest.NewRecorder()
	require.NoError(t, plain.VisitIntrospectAccessTokenResponse(plainRecorder))
	extended, err := ctx.client.IntrospectAccessTokenExtended(reqCtx, IntrospectAccessTokenExtendedRequestObject{Body: body})
	require.NoError(t, err)
	extendedRecorder := httptest.NewRecorder()
	require.NoError(t, extended.VisitIntrospectAccessTokenExtendedResponse(extendedRecorder))

	var plainMembers, extendedMembers map[string]any
	require.NoError(t, json.Unmarshal(plainRecorder.Body.Bytes(), &plainMembers))
	require.NoError(t, json.Unmarshal(extendedRecorder.Body.Bytes(), &extendedMembers))
	t.Logf("introspect:          %s", plainRecorder.Body.String())
	t.Logf("introspect_extended: %s", extendedRecorder.Body.String())

	assert.Equal(t, "Because we care B.V.", plainMembers["organization_name"], "introspect reports the claim")
	assert.Equal(t, "Because we care B.V.", extendedMembers["organization_name"], "introspect_extended must report the same claim values as established at issuance")
}
