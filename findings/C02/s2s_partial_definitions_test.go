package iam

// Replay for C02 (finding #16): the service-to-service token endpoint issues an access token when only
// ONE of the presentation definitions configured for the scope is fulfilled, and the client chooses
// which one (through the submission's definition_id). A scope that requires an organization-wallet
// definition and a user-wallet definition is satisfied by a submission for either of them.

import (
	"context"
	"encoding/json"
	"net/http"
	"testing"

	"github.com/nuts-foundation/nuts-node/vcr/pe"
	"github.com/nuts-foundation/nuts-node/vcr/signature/proof"
	"github.com/nuts-foundation/nuts-node/vcr/test"
	"github.com/stretchr/testify/assert"
	"github.com/stretchr/testify/require"
	"go.uber.org/mock/gomock"
)

func TestVerifReplayS2SPartialDefinitions(t *testing.T) {
	const requestedScope = "example-scope"
	definition := func(id string, credentialType string) pe.PresentationDefinition {
		var pd pe.PresentationDefinition
		require.NoError(t, json.Unmarshal([]byte(`{
	"id": "`+id+`",
	"format": {"ldp_vc": {"proof_type": ["JsonWebSignature2020"]}},
	"input_descriptors": [{"id": "1", "constraints": {"fields": [{"path": ["$.type"], "filter": {"type": "string", "const": "`+credentialType+`"}}]}}]
}`), &pd))
		return pd
	}
	// the scope requires BOTH: an organization credential from the organization wallet and an employee credential from the user wallet
	walletOwnerMapping := pe.WalletOwnerMapping{
		pe.WalletOwnerOrganization: definition("org", "SomethingTheCallerDoesNotHave"),
		pe.WalletOwnerUser:         definition("user", "NutsOrganizationCredential"),
	}
	// the caller only answers the user-wallet definition
	submissionJSON := `{"id": "submission-1", "definition_id": "user", "descriptor_map": [{"id": "1", "path": "$.verifiableCredential", "format": "ldp_vc"}]}`

	verifiableCredential := test.ValidNutsOrganizationCredential(t)
	subjectDID, _ := verifiableCredential.SubjectDID()
	presentation := test.CreateJSONLDPresentation(t, *subjectDID, test.LDProofVisitor(func(proof *proof.LDProof) {
		proof.Domain = &issuerClientID
	}), verifiableCredential)
	httpRequest := &http.Request{Header: http.Header{}}
	requestCtx := context.WithValue(context.Background(), httpRequestContextKey{}, httpRequest)

	ctx := newTestClient(t)
	ctx.vcVerifier.EXPECT().VerifyVP(presentation, true, true, gomock.Any()).Return(presentation.VerifiableCredential, nil).AnyTimes()
	ctx.policy.EXPECT().PresentationDefinitions(gomock.Any(), requestedScope).Return(walletOwnerMapping, nil)

	resp, err := ctx.client.handleS2SAccessTokenRequest(requestCtx, "https://example.com/oauth2/holder", issuerSubjectID, requestedScope, submissionJSON, presentation.Raw())

	assert.Error(t, err, "the organization-wallet definition of the scope was never fulfilled")
	assert.Nil(t, resp, "no access token may be issued")
}
