// Package directory: auth/api/iam  (copy this file to auth/api/iam/zz_scratch_nonce_window_test.go)
//
// Scratch test on the UNMODIFIED code (takes ~11 s): the s2s nonce store forgets a nonce after
// s2sMaxPresentationValidity+s2sMaxClockSkew = 10 s (counted from the first use), but the real verifier accepts a JSON-LD
// presentation from created-5s until expires+5s, which is 15 s for a presentation that is valid for the maximum of 5 s.
// A presentation that is dated ~4 s into the future can therefore be used at T, and replayed after T+10s:
// a second access token is issued on a nonce that was seen before.
// The test asserts the property, so it FAILS (with "PROPERTY VIOLATION") on the unmodified code.
package iam

import (
	"context"
	"crypto"
	"crypto/ecdsa"
	"encoding/json"
	"errors"
	"net/http"
	"os"
	"path"
	"strings"
	"testing"
	"time"

	ssi "github.com/nuts-foundation/go-did"
	"github.com/nuts-foundation/go-did/did"
	"github.com/nuts-foundation/go-did/vc"
	"github.com/nuts-foundation/nuts-node/audit"
	nutsCrypto "github.com/nuts-foundation/nuts-node/crypto"
	"github.com/nuts-foundation/nuts-node/crypto/storage/spi"
	"github.com/nuts-foundation/nuts-node/jsonld"
	"github.com/nuts-foundation/nuts-node/storage/orm"
	"github.com/nuts-foundation/nuts-node/test/io"
	"github.com/nuts-foundation/nuts-node/vcr"
	"github.com/nuts-foundation/nuts-node/vcr/pe"
	"github.com/nuts-foundation/nuts-node/vcr/revocation"
	"github.com/nuts-foundation/nuts-node/vcr/signature"
	"github.com/nuts-foundation/nuts-node/vcr/signature/proof"
	"github.com/nuts-foundation/nuts-node/vcr/test"
	"github.com/nuts-foundation/nuts-node/vcr/trust"
	"github.com/nuts-foundation/nuts-node/vcr/verifier"
	"github.com/nuts-foundation/nuts-node/vdr/resolver"
	"github.com/stretchr/testify/require"
	"go.uber.org/mock/gomock"
)

func TestVerifReplayNonceForgottenWhilePresentationStillVerifies(t *testing.T) {
	const requestedScope = "example-scope"
	const clientID = "https://example.com/oauth2/holder"

	var presentationDefinition pe.PresentationDefinition
	require.NoError(t, json.Unmarshal([]byte(`{
		"id": "pd",
		"format": {"ldp_vc": {"proof_type": ["JsonWebSignature2020"]}},
		"input_descriptors": [{
			"id": "1",
			"constraints": {"fields": [{"path": ["$.type"], "filter": {"type": "string", "const": "NutsOrganizationCredential"}}]}
		}]
	}`), &presentationDefinition))
	walletOwnerMapping := pe.WalletOwnerMapping{pe.WalletOwnerOrganization: presentationDefinition}
	submissionJSON := `{"id": "s", "definition_id": "pd", "descriptor_map": [{"id": "1", "path": "$.verifiableCredential", "format": "ldp_vc"}]}`

	// a credential with a genuine issuer signature (key in vcr/test/public.json)
	verifiableCredential := test.ValidNutsOrganizationCredential(t)
	subjectDID, err := verifiableCredential.SubjectDID()
	require.NoError(t, err)
	pke := spi.PublicKeyEntry{}
	pkeJSON, err := os.ReadFile("../../../vcr/test/public.json")
	require.NoError(t, err)
	require.NoError(t, json.Unmarshal(pkeJSON, &pke))
	credentialKey := new(ecdsa.PublicKey)
	require.NoError(t, pke.JWK().Raw(credentialKey))

	// a really signed JSON-LD presentation (same way vcr/holder builds it), dated 4 s into the future, valid for 5 s
	jsonldManager := jsonld.NewTestJSONLDManager(t)
	kid := subjectDID.String() + "#1"
	keyStore := nutsCrypto.NewMemoryCryptoInstance(t)
	_, presentationKey, err := keyStore.New(audit.TestContext(), nutsCrypto.StringNamingFunc(kid))
	require.NoError(t, err)
	start := time.Now()
	created := start.Add(4 * time.Second)
	expires := created.Add(s2sMaxPresentationValidity)
	nonce := nutsCrypto.GenerateNonce()
	audience := issuerClientID
	unsignedVP := vc.VerifiablePresentation{
		Context:              []ssi.URI{ssi.MustParseURI("https://www.w3.org/2018/credentials/v1"), signature.JSONWebSignature2020Context},
		Type:                 []ssi.URI{ssi.MustParseURI("VerifiablePresentation")},
		VerifiableCredential: []vc.VerifiableCredential{verifiableCredential},
	}
	documentBytes, err := unsignedVP.MarshalJSON()
	require.NoError(t, err)
	var document proof.Document
	require.NoError(t, json.Unmarshal(documentBytes, &document))
	signed, err := proof.NewLDProof(proof.ProofOptions{Created: created, Expires: &expires, Nonce: &nonce, Domain: &audience}).
		Sign(audit.TestContext(), document, signature.JSONWebSignature2020{ContextLoader: jsonldManager.DocumentLoader(), Signer: keyStore}, kid)
	require.NoError(t, err)
	signedJSON, _ := json.Marshal(signed)
	presentation, err := vc.ParseVerifiablePresentation(string(signedJSON))
	require.NoError(t, err)

	ctx := newTestClient(t)
	ctx.policy.EXPECT().PresentationDefinitions(gomock.Any(), requestedScope).Return(walletOwnerMapping, nil).AnyTimes()
	// real verifier; only the outside world (DID documents, keys, revocation store) is mocked
	verifierStore := verifier.NewMockStore(ctx.ctrl)
	verifierStore.EXPECT().GetRevocations(gomock.Any()).Return(nil, verifier.ErrNotFound).AnyTimes()
	didResolver := resolver.NewMockDIDResolver(ctx.ctrl)
	didResolver.EXPECT().Resolve(gomock.Any(), gomock.Any()).Return(&did.Document{}, &resolver.DocumentMetadata{}, nil).AnyTimes()
	keyResolver := resolver.NewMockKeyResolver(ctx.ctrl)
	keyResolver.EXPECT().ResolveKeyByID(gomock.Any(), gomock.Any(), resolver.NutsSigningKeyType).DoAndReturn(
		func(keyID string, _ *resolver.ResolveMetadata, _ resolver.RelationType) (crypto.PublicKey, error) {
			switch {
			case keyID == kid:
				return presentationKey, nil
			case strings.HasPrefix(keyID, verifiableCredential.Issuer.String()+"#"):
				return credentialKey, nil
			}
			return nil, errors.New("unknown key: " + keyID)
		}).AnyTimes()
	realVerifier := verifier.NewVerifier(verifierStore, didResolver, keyResolver, jsonldManager,
		trust.NewConfig(path.Join(io.TestDirectory(t), "trust.yaml")), revocation.NewStatusList2021(orm.NewTestDatabase(t), nil, ""))
	mockVCR := vcr.NewMockVCR(ctx.ctrl)
	mockVCR.EXPECT().Verifier().Return(realVerifier).AnyTimes()
	ctx.client.vcr = mockVCR

	requestCtx := context.WithValue(context.Background(), httpRequestContextKey{}, &http.Request{Header: http.Header{}})
	request := func() (HandleTokenRequestResponseObject, error) {
		return ctx.client.handleS2SAccessTokenRequest(requestCtx, clientID, issuerSubjectID, requestedScope, submissionJSON, presentation.Raw())
	}

	// first use: accepted (the presentation is dated 4 s ahead, which is within the verifier's 5 s skew)
	first, err := request()
	require.NoError(t, err)
	firstToken := first.(HandleTokenRequest200JSONResponse).AccessToken
	require.NotEmpty(t, firstToken)

	// immediate replay: rejected, as it should be. (Note: this also re-stores the nonce, so wait from here.)
	_, err = request()
	require.EqualError(t, err, "invalid_request - presentation nonce has already been used")

	// wait until the nonce store (TTL 10 s) has forgotten the nonce
	time.Sleep(time.Until(time.Now().Add(s2sMaxPresentationValidity + s2sMaxClockSkew + 300*time.Millisecond)))
	t.Logf("replaying %s after first use; presentation expired %s ago", time.Since(start).Round(100*time.Millisecond), time.Since(expires).Round(100*time.Millisecond))

	second, err := request()
	if err == nil {
		t.Fatalf("PROPERTY VIOLATION (C02): second access token %q (first: %q) issued on the same presentation / a nonce that was seen before",
			second.(HandleTokenRequest200JSONResponse).AccessToken, firstToken)
	}
	t.Logf("replay rejected: %v", err)
}
