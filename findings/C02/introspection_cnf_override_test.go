package iam

// Replay for C02 (finding #12): a credential-derived claim named like a standard member that is not on
// the reserved list ("cnf", "aud", "vps", "presentation_definitions", "presentation_submissions")
// overrides that member in the introspection response: the generated MarshalJSON writes the additional
// properties after the standard members. With a constraint field id "cnf" the key binding of a
// DPoP-bound token is replaced by a value taken from a credential.

import (
	"encoding/json"
	"testing"
	"time"

	"github.com/stretchr/testify/assert"
	"github.com/stretchr/testify/require"
)

func TestVerifReplayIntrospectionCnfOverride(t *testing.T) {
	ctx := newTestClient(t)
	dpopToken, _, thumbprint := newSignedTestDPoP()
	token := AccessToken{
		Token:      "token",
		Issuer:     "https://example.com/oauth2/issuer",
		ClientId:   "client",
		Scope:      "test",
		IssuedAt:   time.Now(),
		Expiration: time.Now().Add(time.Hour),
		DPoP:       dpopToken,
		// resolved from a presentation definition whose constraint field has id "cnf"
		InputDescriptorConstraintIdMap: map[string]any{"cnf": map[string]any{"jkt": "value-from-a-credential"}},
	}
	require.NoError(t, ctx.client.accessTokenServerStore().Put(token.Token, token))

	response, err := ctx.client.introspectAccessToken(token.Token)
	if err != nil {
		return // refusing to introspect such a token is the guard the code has for the other standard members
	}
	require.NotNil(t, response)
	data, err := json.Marshal(response)
	require.NoError(t, err)
	var asMap map[string]any
	require.NoError(t, json.Unmarshal(data, &asMap))
	assert.Equal(t, map[string]any{"jkt": thumbprint}, asMap["cnf"], "key binding reported by introspection must be the DPoP key the token was bound to at issuance")
}
