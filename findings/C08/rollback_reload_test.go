// Belongs in package directory: network/dag   (package dag, internal test)
//
// Demo for seeded change C08d-1: after a write transaction that is rolled back at its very end
// (commit refused / I/O error), the highest Lamport clock reported by the state must fall back to
// what the stored transactions imply.
package dag

import (
	"context"
	"errors"
	"github.com/nuts-foundation/go-stoabs"
	"github.com/nuts-foundation/nuts-node/core"
	"github.com/nuts-foundation/nuts-node/crypto/hash"
	"github.com/nuts-foundation/nuts-node/network/dag/tree"
	"github.com/nuts-foundation/nuts-node/storage"
	"github.com/nuts-foundation/nuts-node/test/io"
	"github.com/stretchr/testify/assert"
	"github.com/stretchr/testify/require"
	"go.uber.org/mock/gomock"
	"path"
	"sort"
	"sync/atomic"
	"testing"
)

// seedDemoFailingStore is a real BBolt store whose next write transaction can be made to fail after the application
// function has done all its work. For the caller this is indistinguishable from a commit that is refused by the
// database (disk full, I/O error): the transaction is rolled back and the OnRollback hooks run.
type seedDemoFailingStore struct {
	stoabs.KVStore
	failNext atomic.Bool
}

func (f *seedDemoFailingStore) Write(ctx context.Context, fn func(stoabs.WriteTx) error, opts ...stoabs.TxOption) error {
	return f.KVStore.Write(ctx, func(tx stoabs.WriteTx) error {
		if err := fn(tx); err != nil {
			return err
		}
		if f.failNext.CompareAndSwap(true, false) {
			return errors.New("injected failure at the end of the write transaction")
		}
		return nil
	}, opts...)
}

// seedDemoAssertConsistent compares everything the state reports with a reference fold over the given set of
// stored transactions.
func seedDemoAssertConsistent(t *testing.T, s State, stored []Transaction, label string) {
	t.Helper()
	ctx := context.Background()

	// reference values
	var high uint32
	for _, tx := range stored {
		if tx.Clock() > high {
			high = tx.Clock()
		}
	}
	refXor := func(reqClock uint32) (hash.SHA256Hash, *tree.Iblt, uint32) {
		// a request at or past the highest clock covers everything; otherwise up to the end of the requested page
		pageEnd := uint32(MaxLamportClock)
		if reqClock < high {
			pageEnd = (reqClock/PageSize+1)*PageSize - 1
		}
		x := hash.EmptyHash()
		i := tree.NewIblt(IbltNumBuckets)
		for _, tx := range stored {
			if tx.Clock() <= pageEnd {
				x = x.Xor(tx.Ref())
				i.Insert(tx.Ref())
			}
		}
		clock := pageEnd
		if clock > high {
			clock = high
		}
		return x, i, clock
	}

	for _, c := range []uint32{0, 1, PageSize - 1, PageSize, PageSize + 1, 2*PageSize - 1, 2 * PageSize, high, high + 1, MaxLamportClock} {
		expXor, expIblt, expClock := refXor(c)
		actXor, actXorClock := s.XOR(c)
		assert.Equalf(t, expClock, actXorClock, "%s: XOR(%d) clock", label, c)
		assert.Truef(t, expXor.Equals(actXor), "%s: XOR(%d) digest", label, c)
		actIblt, actIbltClock := s.IBLT(c)
		assert.Equalf(t, expClock, actIbltClock, "%s: IBLT(%d) clock", label, c)
		require.NoError(t, actIblt.Subtract(expIblt))
		assert.Truef(t, actIblt.Empty(), "%s: IBLT(%d) contents", label, c)
	}

	// clock-ordered listing
	expected := append([]Transaction{}, stored...)
	sort.SliceStable(expected, func(i, j int) bool {
		if expected[i].Clock() != expected[j].Clock() {
			return expected[i].Clock() < expected[j].Clock()
		}
		return expected[i].Ref().Compare(expected[j].Ref()) < 0
	})
	listing, err := s.FindBetweenLC(ctx, 0, MaxLamportClock)
	require.NoError(t, err)
	require.Lenf(t, listing, len(expected), "%s: listing length", label)
	for i := range expected {
		assert.Truef(t, expected[i].Ref().Equals(listing[i].Ref()), "%s: listing[%d]", label, i)
	}

	// head is one of the transactions with the highest clock
	head, err := s.Head(ctx)
	require.NoError(t, err)
	headOK := false
	for _, tx := range stored {
		if tx.Clock() == high && tx.Ref().Equals(head) {
			headOK = true
		}
	}
	assert.Truef(t, headOK, "%s: head %s is not a transaction with the highest clock", label, head)

	// counters
	for _, d := range s.Diagnostics() {
		switch d.Name() {
		case TransactionCountDiagnostic:
			assert.Equalf(t, uint(len(stored)), d.Result(), "%s: transaction_count", label)
		case "dag_lc_high":
			assert.Equalf(t, high, d.Result(), "%s: dag_lc_high", label)
		case "dag_xor":
			expXor, _, _ := refXor(MaxLamportClock)
			assert.Equalf(t, expXor, d.Result(), "%s: dag_xor", label)
		}
	}
}

func TestVerifReplayRolledBackAddRestoresHighestClock(t *testing.T) {
	ctx := context.Background()
	db := &seedDemoFailingStore{KVStore: storage.CreateTestBBoltStore(t, path.Join(io.TestDirectory(t), "test.db"))}
	s, err := NewState(db)
	require.NoError(t, err)
	require.NoError(t, s.Configure(core.ServerConfig{}))
	t.Cleanup(func() { _ = s.Shutdown() })

	// a valid history: a chain with clocks 0..4, plus a branch at clock 2
	var stored []Transaction
	var prev Transaction
	for i := uint32(0); i < 5; i++ {
		var next Transaction
		if prev == nil {
			next, _, _ = CreateTestTransaction(i)
		} else {
			next, _, _ = CreateTestTransaction(i, prev)
		}
		require.NoError(t, s.Add(ctx, next, nil))
		stored = append(stored, next)
		prev = next
	}
	branch, _, _ := CreateTestTransaction(100, stored[1])
	require.NoError(t, s.Add(ctx, branch, nil))
	stored = append(stored, branch)
	seedDemoAssertConsistent(t, s, stored, "before the failed write")

	// the next transaction (clock 5) is fully processed, but the write transaction fails at its end and is rolled back
	rolledBack, _, _ := CreateTestTransaction(5, prev)
	require.Equal(t, uint32(5), rolledBack.Clock())
	db.failNext.Store(true)
	err = s.Add(ctx, rolledBack, nil)
	require.Error(t, err)
	present, err := s.IsPresent(ctx, rolledBack.Ref())
	require.NoError(t, err)
	require.False(t, present, "rolled back transaction must not be stored")

	// everything must still be what the stored set (clocks 0..4) implies
	seedDemoAssertConsistent(t, s, stored, "after the rolled back write")

	// ... and the same after adding it for real, and after a restart from disk
	require.NoError(t, s.Add(ctx, rolledBack, nil))
	stored = append(stored, rolledBack)
	seedDemoAssertConsistent(t, s, stored, "after the retry")

	s2, err := NewState(db)
	require.NoError(t, err)
	require.NoError(t, s2.Configure(core.ServerConfig{}))
	seedDemoAssertConsistent(t, s2, stored, "after reload")
}

// The caller's context ends (deadline/cancel) while the write transaction of state.Add is in progress. go-stoabs then
// refuses to commit and runs the OnRollback hook. The hook calls s.loadState(ctx) with the SAME, already dead, context:
// the read transaction can not be started (or the shelf iteration aborts), so the in-memory trees and lamportClockHigh
// keep the transaction that was just rolled back.
func TestVerifReplayRollbackWithEndedContext(t *testing.T) {
	ctx := context.Background()
	db := storage.CreateTestBBoltStore(t, path.Join(io.TestDirectory(t), "test.db"))
	s, err := NewState(db)
	require.NoError(t, err)
	require.NoError(t, s.Configure(core.ServerConfig{}))
	t.Cleanup(func() { _ = s.Shutdown() })

	var stored []Transaction
	var prev Transaction
	for i := uint32(0); i < 3; i++ {
		var next Transaction
		if prev == nil {
			next, _, _ = CreateTestTransaction(i)
		} else {
			next, _, _ = CreateTestTransaction(i, prev)
		}
		require.NoError(t, s.Add(ctx, next, nil))
		stored = append(stored, next)
		prev = next
	}
	seedDemoAssertConsistent(t, s, stored, "before")

	// a subscriber whose Save happens to be where the caller's context ends
	addCtx, cancel := context.WithCancel(ctx)
	defer cancel()
	ctrl := gomock.NewController(t)
	notifier := NewMockNotifier(ctrl)
	notifier.EXPECT().Save(gomock.Any(), gomock.Any()).DoAndReturn(func(_ stoabs.WriteTx, _ Event) error {
		cancel()
		return nil
	})
	notifier.EXPECT().GetFailedEvents().AnyTimes().Return(nil, nil)
	s.(*state).notifiers.Store("scratch", notifier)

	rolledBack, _, _ := CreateTestTransaction(3, prev)
	err = s.Add(addCtx, rolledBack, nil)
	require.Error(t, err)
	t.Logf("Add returned: %v", err)
	present, err := s.IsPresent(ctx, rolledBack.Ref())
	require.NoError(t, err)
	require.False(t, present, "rolled back transaction must not be stored")

	seedDemoAssertConsistent(t, s, stored, "after a write rolled back because the context ended")
}

// The very first transaction is rolled back at the end of its write transaction. The OnRollback hook reloads the trees
// from the (still empty) shelves, but tree.Load returns early on "nothing to load" without resetting the tree, so the
// XOR and IBLT trees keep the root transaction that was never stored.
func TestVerifReplayRollbackOfFirstTransaction(t *testing.T) {
	ctx := context.Background()
	db := &seedDemoFailingStore{KVStore: storage.CreateTestBBoltStore(t, path.Join(io.TestDirectory(t), "test.db"))}
	s, err := NewState(db)
	require.NoError(t, err)
	require.NoError(t, s.Configure(core.ServerConfig{}))
	t.Cleanup(func() { _ = s.Shutdown() })

	root, _, _ := CreateTestTransaction(0)
	db.failNext.Store(true)
	require.Error(t, s.Add(ctx, root, nil))
	present, err := s.IsPresent(ctx, root.Ref())
	require.NoError(t, err)
	require.False(t, present)

	// nothing is stored: digests must be empty
	xor, _ := s.XOR(MaxLamportClock)
	require.Truef(t, xor.Empty(), "XOR of an empty DAG is %s", xor)
	iblt, _ := s.IBLT(MaxLamportClock)
	require.True(t, iblt.Empty(), "IBLT of an empty DAG is not empty")

	// and adding another root now gives a digest of that root only
	other, _, _ := CreateTestTransaction(1)
	require.NoError(t, s.Add(ctx, other, nil))
	seedDemoAssertConsistent(t, s, []Transaction{other}, "after rolled back first root")
}
