package dag

import (
	"context"
	"testing"

	"github.com/nuts-foundation/go-stoabs"
	"github.com/stretchr/testify/assert"
)

// dag.add bumps tx_num by len(transactions), also for transactions addSingle skipped because they were already stored.
func TestExisting_dagAddCountsSkippedDuplicates(t *testing.T) {
	graph := CreateDAG(t)
	tx := CreateTestTransactionWithJWK(0)
	addTx(t, graph, tx)
	addTx(t, graph, tx) // skipped by addSingle ("Transaction already exists, not adding it again.")
	_ = graph.db.Read(context.Background(), func(dbTx stoabs.ReadTx) error {
		stored, _ := graph.findBetweenLC(dbTx, 0, MaxLamportClock)
		assert.Len(t, stored, 1)
		assert.Equal(t, uint64(len(stored)), graph.getNumberOfTransactions(dbTx), "tx_num must equal the number of stored transactions")
		return nil
	})
}
