package storage

// Replay for C05 (finding #10): GetAndDelete is Get followed by Delete without exclusion, so two
// requests that present the same one-time value can both succeed. The schedule is forced with a
// barrier in the cache's backing store: both takers finish their read before either deletes - the
// interleaving two concurrent HTTP requests can produce on the real in-memory (or redis/memcached)
// store. Authorization codes, request objects and OpenID4VP nonces are all burned through this call.

import (
	"context"
	"sync"
	"testing"
	"time"

	"github.com/eko/gocache/lib/v4/cache"
	"github.com/eko/gocache/lib/v4/store"
	"github.com/eko/gocache/store/go_cache/v4"
	gocacheclient "github.com/patrickmn/go-cache"
	"github.com/stretchr/testify/assert"
	"github.com/stretchr/testify/require"
)

// barrierStore lets every Get wait until `parties` readers have read.
type barrierStore struct {
	store.StoreInterface
	parties int
	mu      sync.Mutex
	arrived int
	release chan struct{}
}

func (b *barrierStore) Get(ctx context.Context, key any) (any, error) {
	value, err := b.StoreInterface.Get(ctx, key)
	b.mu.Lock()
	b.arrived++
	if b.arrived == b.parties {
		close(b.release)
	}
	b.mu.Unlock()
	select {
	case <-b.release:
	case <-time.After(2 * time.Second): // a store that serialises takers never gets both readers here
	}
	return value, err
}

func TestVerifReplayGetAndDeleteInterleaving(t *testing.T) {
	backing := &barrierStore{
		StoreInterface: go_cache.NewGoCache(gocacheclient.New(time.Minute, time.Minute)),
		parties:        2,
		release:        make(chan struct{}),
	}
	db := &InMemorySessionDatabase{underlying: cache.New[[]byte](backing)}
	codes := db.GetStore(time.Minute, "oauth", "code")
	require.NoError(t, codes.Put("authorization-code", "session"))
	backing.arrived = 0 // Put does not read

	results := make(chan error, 2)
	for i := 0; i < 2; i++ {
		go func() {
			var session string
			results <- codes.GetAndDelete("authorization-code", &session)
		}()
	}
	succeeded := 0
	for i := 0; i < 2; i++ {
		if err := <-results; err == nil {
			succeeded++
		}
	}
	assert.LessOrEqual(t, succeeded, 1, "a one-time value was honoured %d times", succeeded)
}
