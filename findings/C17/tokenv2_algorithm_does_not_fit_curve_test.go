package tokenV2

import (
	"crypto/ecdsa"
	"crypto/elliptic"
	"crypto/rand"
	"encoding/base64"
	"fmt"
	"net/http"
	"net/http/httptest"
	"testing"

	"github.com/labstack/echo/v4"
	"github.com/lestrrat-go/jwx/v2/jwa"
	"github.com/lestrrat-go/jwx/v2/jwk"
	"github.com/lestrrat-go/jwx/v2/jwt"
	"github.com/stretchr/testify/assert"
	"github.com/stretchr/testify/require"
	"golang.org/x/crypto/ssh"
)

func existingDefectSend(t *testing.T, authorizedKeys string, credential string) bool {
	middleware, err := New(nil, validHostname, []byte(authorizedKeys))
	require.NoError(t, err)
	request, _ := http.NewRequest("GET", "/", nil)
	request.Header.Set("Authorization", "Bearer "+credential)
	recorder := httptest.NewRecorder()
	err = middleware.Handler(statusOKHandler)(echo.New().NewContext(request, recorder))
	if err != nil {
		t.Logf("denied: %v", err.(*echo.HTTPError).Internal)
		return false
	}
	return true
}

// The algorithm must fit the verification key: ES256 (SHA-256) does not belong to a P-384 key.
func TestExistingDefect_TokenV2AlgorithmDoesNotFitCurve(t *testing.T) {
	priv, _ := ecdsa.GenerateKey(elliptic.P384(), rand.Reader)
	sshPub, err := ssh.NewPublicKey(&priv.PublicKey)
	require.NoError(t, err)
	authorizedKeys := fmt.Sprintf("%v %v %s", sshPub.Type(), base64.StdEncoding.EncodeToString(sshPub.Marshal()), validUser)
	key, _ := jwk.FromRaw(priv)
	_ = key.Set(jwk.KeyIDKey, ssh.FingerprintSHA256(sshPub))
	serialized, err := jwt.NewSerializer().Sign(jwt.WithKey(jwa.ES256, key)).Serialize(validJWT(t))
	require.NoError(t, err)
	assert.False(t, existingDefectSend(t, authorizedKeys, string(serialized)), "ES256 token verified with a P-384 key was accepted")
}
