// Replay of finding #55 (C17/C06), package directory network/dag: CR/LF inside a compact transaction were ignored (Go's base64
// decoder skips them, also in Strict mode), so CheckCompactJWS / ParseTransaction / the signature verifier accepted re-encodings
// of a signed transaction with a different Ref(). Failed before the fix.
package dag

import (
	"bytes"
	"testing"

	"github.com/lestrrat-go/jwx/v2/jws"
	"github.com/nuts-foundation/nuts-node/crypto/hash"
)

func TestVerifReplayLineBreaksInCompactTransaction(t *testing.T) {
	key := generateKey()
	payload, _ := hash.ParseHex("3d2c482831de294af919a4c4604c97156cf0ba46fcf6f96e50774597470f8db8")
	headers := makeJWSHeaders(key, "123", true)
	signed, err := jws.Sign([]byte(payload.String()), jws.WithKey(headers.Algorithm(), key, jws.WithProtectedHeaders(headers)))
	if err != nil {
		t.Fatal(err)
	}
	orig, err := ParseTransaction(signed)
	if err != nil {
		t.Fatal(err)
	}
	for _, variant := range [][]byte{
		append(append([]byte{}, signed...), '\n'),
		bytes.Replace(signed, []byte("."), []byte("\n."), 1),
		append(append(append([]byte{}, signed[:10]...), '\r', '\n'), signed[10:]...),
	} {
		tx, err := ParseTransaction(variant)
		if err != nil {
			t.Logf("variant rejected: %v", err)
			continue
		}
		verr := NewTransactionSignatureVerifier(nil)(nil, tx)
		t.Errorf("re-encoded variant %q... ACCEPTED by parser: ref=%s (orig %s) verifier err=%v", variant[:14], tx.Ref(), orig.Ref(), verr)
	}
}
