// Package directory: crypto  (package crypto)
//
// Scratch test for an observation on the UNMODIFIED code (not a seeded change): ParseJWT (credential/presentation JWTs,
// request objects, RFC003 bearer tokens, access tokens) accepts a token whose PROTECTED header segment was re-encoded
// (padded standard base64 instead of base64url without padding). jwx decodes leniently and verifies the signature over
// its own canonical re-encoding of the decoded header, not over the bytes that were received. Written as "must be
// refused", so it FAILS on the unmodified code.
package crypto

import (
	"crypto"
	"crypto/ecdsa"
	"crypto/elliptic"
	"crypto/rand"
	"encoding/base64"
	"strings"
	"testing"

	"github.com/lestrrat-go/jwx/v2/jwa"
	"github.com/nuts-foundation/nuts-node/audit"
	"github.com/stretchr/testify/assert"
	"github.com/stretchr/testify/require"
)

func TestVerifReplayParseJWTReencodedHeader(t *testing.T) {
	key, _ := ecdsa.GenerateKey(elliptic.P256(), rand.Reader)
	// the kid is chosen such that the header is not a multiple of 3 bytes long (padding) - any token will do in practice
	var token, reencoded string
	for _, kid := range []string{"did:example:1#k", "did:example:1#k1", "did:example:1#k12"} {
		var err error
		token, err = SignJWT(audit.TestContext(), key, jwa.ES256, map[string]interface{}{"iss": "did:example:1"}, map[string]interface{}{"kid": kid})
		require.NoError(t, err)
		parts := strings.Split(token, ".")
		header, err := base64.RawURLEncoding.DecodeString(parts[0])
		require.NoError(t, err)
		parts[0] = base64.StdEncoding.EncodeToString(header)
		reencoded = strings.Join(parts, ".")
		if reencoded != token {
			break
		}
	}
	require.NotEqual(t, token, reencoded)
	keyFn := func(kid string) (crypto.PublicKey, error) { return key.Public(), nil }
	_, err := ParseJWT(token, keyFn)
	require.NoError(t, err)

	_, err = ParseJWT(reencoded, keyFn)

	assert.Error(t, err, "token with altered protected bytes accepted:\n received: %s\n original: %s", reencoded, token)
}
