// Package directory: crypto/ (package crypto). Scratch test for the UNMODIFIED code: it FAILS on the unmodified tree,
// showing that ParseJWT accepts a token whose header says ES256 although the resolved key is a P-384 key
// (signature = ECDSA/P-384 over the SHA-256 digest): the algorithm does not fit the verification key.
package crypto

import (
	"crypto"
	"crypto/ecdsa"
	"crypto/elliptic"
	"crypto/rand"
	"crypto/sha256"
	"encoding/base64"
	"testing"
)

func handSign(t *testing.T, key *ecdsa.PrivateKey, header, payload string) string {
	h := base64.RawURLEncoding.EncodeToString([]byte(header))
	p := base64.RawURLEncoding.EncodeToString([]byte(payload))
	digest := sha256.Sum256([]byte(h + "." + p))
	r, s, err := ecdsa.Sign(rand.Reader, key, digest[:])
	if err != nil {
		t.Fatal(err)
	}
	size := (key.Curve.Params().BitSize + 7) / 8
	sig := make([]byte, 2*size)
	r.FillBytes(sig[:size])
	s.FillBytes(sig[size:])
	return h + "." + p + "." + base64.RawURLEncoding.EncodeToString(sig)
}

func TestVerifReplayAlgorithmMustFitTheCurve(t *testing.T) {
	key, _ := ecdsa.GenerateKey(elliptic.P384(), rand.Reader)
	token := handSign(t, key, `{"alg":"ES256","kid":"k"}`, `{"iss":"x"}`)
	_, err := ParseJWT(token, func(kid string) (crypto.PublicKey, error) { return key.Public(), nil })
	if err == nil {
		t.Errorf("ES256 header with a P-384 verification key was accepted")
	}
}
