package oauth

// Replay for C17 (finding #28): the v1 authorization server accepts a JWT bearer token whose iss is
// one DID but which is signed with (and names in kid) a key of ANOTHER DID. parseAndValidateJwtBearerToken
// verifies the signature with whatever key kid denotes, and validateIssuer only checks that this kid
// resolves as a signing key at the issue time - not that it is a key of the issuer (RFC003 5.2.1.3:
// "the signing key (KID) must be present as assertionMethod in the issuer's DID", also the comment above
// validateIssuer). The requester identity (organization name / city) is then taken from the credentials
// of iss, so the holder of any DID can present itself as any organization.

import (
	"context"
	"crypto/ecdsa"
	"crypto/elliptic"
	"crypto/rand"
	"encoding/json"
	"testing"

	"github.com/lestrrat-go/jwx/v2/jwa"
	"github.com/lestrrat-go/jwx/v2/jws"
	"github.com/lestrrat-go/jwx/v2/jwt"
	"github.com/nuts-foundation/go-did/vc"
	"github.com/nuts-foundation/nuts-node/jsonld"
	"github.com/nuts-foundation/nuts-node/vdr/resolver"
	"github.com/stretchr/testify/assert"
	"github.com/stretchr/testify/require"
	"go.uber.org/mock/gomock"
)

func TestVerifReplayBearerTokenSignedByOtherDID(t *testing.T) {
	ctx := createContext(t)
	attackerKey, _ := ecdsa.GenerateKey(elliptic.P256(), rand.Reader)
	const attackerKID = "did:nuts:attacker#key-1" // a key of a DID that is not the issuer

	// token of validContext: iss = requesterDID (the organization that is impersonated)
	tokenCtx := validContext(t)
	hdrs := jws.NewHeaders()
	require.NoError(t, hdrs.Set(jws.KeyIDKey, attackerKID))
	signed, err := jwt.Sign(tokenCtx.jwtBearerToken, jwt.WithKey(jwa.ES256, attackerKey, jws.WithProtectedHeaders(hdrs)))
	require.NoError(t, err)
	tokenCtx = &validationContext{rawJwtBearerToken: string(signed)}

	// the attacker's key resolves: it is a perfectly valid key of the attacker's own DID
	ctx.keyResolver.EXPECT().ResolveKeyByID(attackerKID, gomock.Any(), resolver.NutsSigningKeyType).AnyTimes().Return(attackerKey.Public(), nil)
	// the impersonated organization has a trusted organization credential
	testCredential := vc.VerifiableCredential{}
	_ = json.Unmarshal([]byte(jsonld.TestOrganizationCredential), &testCredential)
	ctx.nameResolver.EXPECT().Search(context.Background(), gomock.Any(), false, gomock.Any()).AnyTimes().Return([]vc.VerifiableCredential{testCredential}, nil)

	require.NoError(t, ctx.oauthService.parseAndValidateJwtBearerToken(tokenCtx), "signature is valid for the attacker's key")
	err = ctx.oauthService.validateIssuer(tokenCtx)

	assert.Error(t, err, "token with iss=%s signed by %s was accepted; requester identity: %v", requesterDID, attackerKID, tokenCtx.requesterOrganizationIdentities)
}
