// Package directory: network/dag  (package dag)
//
// Scratch tests for observations on the UNMODIFIED code (not seeded changes). Each test is written as the property
// demands ("must be refused"), so a FAIL shows that the unmodified code already deviates.
package dag

import (
	"bytes"
	"crypto/ecdsa"
	"crypto/elliptic"
	"crypto/rand"
	"encoding/base64"
	"encoding/json"
	"testing"

	"github.com/lestrrat-go/jwx/v2/jwk"
	"github.com/lestrrat-go/jwx/v2/jws"
	"github.com/stretchr/testify/assert"
	"github.com/stretchr/testify/require"
)

// A third party can re-encode a valid transaction (here: standard base64 with padding for the signature segment, or the
// flattened JSON serialisation) without the signing key. The result parses, its signature verifies, but it is another
// transaction as far as the DAG is concerned (Ref = SHA-256 over the bytes).
func TestVerifReplayReencodedTransaction(t *testing.T) {
	original := CreateTestTransactionWithJWK(1)
	require.NoError(t, NewTransactionSignatureVerifier(nil)(nil, original))
	parts := bytes.Split(original.Data(), []byte("."))
	require.Len(t, parts, 3)
	signature, err := base64.RawURLEncoding.DecodeString(string(parts[2]))
	require.NoError(t, err)

	check := func(t *testing.T, reencoded []byte) {
		require.NotEqual(t, original.Data(), reencoded)
		tx, err := ParseTransaction(reencoded)
		if err != nil {
			return // refused, fine
		}
		err = NewTransactionSignatureVerifier(nil)(nil, tx)
		assert.Error(t, err, "re-encoded transaction accepted: ref %s instead of %s", tx.Ref(), original.Ref())
	}
	t.Run("signature segment in padded standard base64", func(t *testing.T) {
		padded := base64.StdEncoding.EncodeToString(signature)
		require.NotEqual(t, string(parts[2]), padded)
		check(t, bytes.Join([][]byte{parts[0], parts[1], []byte(padded)}, []byte(".")))
	})
	t.Run("flattened JSON serialisation with insignificant whitespace", func(t *testing.T) {
		asJSON, _ := json.MarshalIndent(map[string]string{
			"protected": string(parts[0]),
			"payload":   string(parts[1]),
			"signature": string(parts[2]),
		}, "", " ")
		check(t, asJSON)
	})
}

// "embedded private keys are refused": a transaction whose jwk header contains the PRIVATE key.
func TestVerifReplayTransactionWithEmbeddedPrivateKey(t *testing.T) {
	key, _ := ecdsa.GenerateKey(elliptic.P256(), rand.Reader)
	headers := makeJWSHeaders(key, "", false)
	_ = headers.Remove(jws.KeyIDKey)
	privateJWK, err := jwk.FromRaw(key) // private key as JWK, includes "d"
	require.NoError(t, err)
	require.NoError(t, headers.Set(jws.JWKKey, privateJWK))
	data, err := jws.Sign([]byte("bedcd5bfb50af622be56c4aec7ac5da64745686b362afc7e615ea89b0705b8f8"), jws.WithKey(headers.Algorithm(), key, jws.WithProtectedHeaders(headers)))
	require.NoError(t, err)

	tx, err := ParseTransaction(data)
	if err != nil {
		return // refused, fine
	}
	err = NewTransactionSignatureVerifier(nil)(nil, tx)
	assert.Error(t, err, "transaction with an embedded private key accepted")
}
