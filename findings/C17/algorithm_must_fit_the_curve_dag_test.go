// Package directory: network/dag/ (package dag). Scratch test for the UNMODIFIED code: it FAILS on the unmodified tree.
package dag

import (
	"crypto/ecdsa"
	"crypto/elliptic"
	"crypto/rand"
	"crypto/sha256"
	"encoding/base64"
	"encoding/json"
	"testing"

	"github.com/lestrrat-go/jwx/v2/jwa"
	"github.com/nuts-foundation/nuts-node/crypto/hash"
)

// UNMODIFIED code: a transaction whose header says ES256 but that is signed (SHA-256) with an embedded P-384 key
func TestVerifReplayAlgorithmMustFitTheCurveDAG(t *testing.T) {
	key, _ := ecdsa.GenerateKey(elliptic.P384(), rand.Reader)
	payload, _ := hash.ParseHex("3d2c482831de294af919a4c4604c97156cf0ba46fcf6f96e50774597470f8db8")
	headers := makeJWSHeaders(key, "123", true)
	_ = headers.Set("alg", jwa.ES256)
	hdrJSON, _ := json.Marshal(headers)
	h := base64.RawURLEncoding.EncodeToString(hdrJSON)
	p := base64.RawURLEncoding.EncodeToString([]byte(payload.String()))
	digest := sha256.Sum256([]byte(h + "." + p))
	r, s, _ := ecdsa.Sign(rand.Reader, key, digest[:])
	sig := make([]byte, 96)
	r.FillBytes(sig[:48])
	s.FillBytes(sig[48:])
	input := []byte(h + "." + p + "." + base64.RawURLEncoding.EncodeToString(sig))
	tx, err := ParseTransaction(input)
	if err != nil {
		t.Logf("rejected by parser: %v", err)
		return
	}
	if err := NewTransactionSignatureVerifier(nil)(nil, tx); err == nil {
		t.Errorf("transaction with alg=%s signed with an embedded P-384 key was parsed and verified", tx.SigningAlgorithm())
	}
}
