// Package directory: http/tokenV2  (package tokenV2)
//
// Scratch test for an observation on the UNMODIFIED code (not a seeded change): the internal-API bearer token
// middleware accepts a JWS in JSON serialisation that carries TWO signatures, of which only one is made by an
// authorised key. The test is written as "must be refused" so it FAILS on the unmodified code, showing the violation
// of "exactly one signature".
package tokenV2

import (
	"crypto/ecdsa"
	"crypto/elliptic"
	"crypto/rand"
	"fmt"
	"net/http"
	"net/http/httptest"
	"strings"
	"testing"

	"github.com/labstack/echo/v4"
	"github.com/lestrrat-go/jwx/v2/jwa"
	"github.com/lestrrat-go/jwx/v2/jws"
	"github.com/lestrrat-go/jwx/v2/jwt"
	"github.com/stretchr/testify/assert"
	"github.com/stretchr/testify/require"
)

func TestVerifReplayBearerTokenWithTwoSignatures(t *testing.T) {
	authorisedJWK, _, authorizedKey := generateECDSATestKey(t, elliptic.P256(), jwa.ES256)
	strangerKey, err := ecdsa.GenerateKey(elliptic.P256(), rand.Reader)
	require.NoError(t, err)

	claims, err := jwt.NewSerializer().Serialize(validJWT(t)) // plain JSON claims
	require.NoError(t, err)
	strangerHeaders := jws.NewHeaders()
	require.NoError(t, strangerHeaders.Set(jws.KeyIDKey, "somebody-else"))
	// JSON serialisation, first signature by the authorised key, second by a stranger
	serialized, err := jws.Sign(claims, jws.WithJSON(),
		jws.WithKey(jwa.ES256, authorisedJWK),
		jws.WithKey(jwa.ES256, strangerKey, jws.WithProtectedHeaders(strangerHeaders)))
	require.NoError(t, err)
	require.False(t, strings.ContainsAny(string(serialized), " \t\n"), "must survive the Authorization header split")
	message, err := jws.Parse(serialized)
	require.NoError(t, err)
	require.Len(t, message.Signatures(), 2)
	t.Logf("credential=%s", serialized)

	middleware, err := New(nil, validHostname, authorizedKey)
	require.NoError(t, err)
	handler := middleware.Handler(statusOKHandler)
	request, _ := http.NewRequest("GET", "/", nil)
	request.Header.Set("Authorization", fmt.Sprintf("Bearer %s", serialized))
	recorder := httptest.NewRecorder()

	err = handler(echo.New().NewContext(request, recorder))

	assert.Error(t, err, "a bearer token with two signatures (one by an unknown key) was accepted")
}
