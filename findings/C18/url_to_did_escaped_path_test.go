package didweb

import (
	"testing"

	"github.com/nuts-foundation/go-did/did"
	"github.com/stretchr/testify/assert"
	"github.com/stretchr/testify/require"
)

// place in vdr/didweb; fails on the unchanged tree
func TestExisting_RoundTripPercentEncodedSegment(t *testing.T) {
	for _, identifier := range []string{
		"did:web:example.com:a%20b",     // space
		"did:web:example.com:caf%C3%A9", // non-ASCII, UTF-8 percent-encoded
		"did:web:example.com:a%5Bb",     // '['
		"did:web:example.com:a%22b",     // '"'
	} {
		t.Run(identifier, func(t *testing.T) {
			id, err := did.ParseDID(identifier)
			require.NoError(t, err)
			asURL, err := DIDToURL(*id)
			require.NoError(t, err)
			back, err := URLToDID(*asURL)
			require.NoError(t, err)
			assert.Equal(t, identifier, back.String())
		})
	}
}
