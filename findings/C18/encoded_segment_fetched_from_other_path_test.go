// This file belongs in package directory vdr/didweb (package didweb).
//
// Scratch test on the UNMODIFIED code: it reports (t.Log) which URL is requested for did:web identifiers that contain
// percent-encoded octets other than the sub-delims that percentDecodeString decodes (e.g. %2F, %2E), and FAILS where the
// requested URL is not DIDToURL(id) + "/did.json".

package didweb

import (
	"io"
	"net/http"
	"strings"
	"testing"

	"github.com/nuts-foundation/go-did/did"
)

type scratchTransport func(*http.Request) (*http.Response, error)

func (fn scratchTransport) RoundTrip(r *http.Request) (*http.Response, error) { return fn(r) }

func TestVerifReplayEncodedSegmentIsFetchedFromItsOwnPath(t *testing.T) {
	for _, requested := range []string{
		"did:web:example.com:x:y%2Fz",       // one segment "y/z" (util_test.go "encoded path": DIDToURL gives https://example.com/x/y%2Fz)
		"did:web:example.com:x:y:%2E%2E:z",  // util_test.go "encoded illegal traversal path": DIDToURL gives https://example.com/x/y/%2E%2E/z
		"did:web:example.com:a%3Fb",         // encoded '?'
		"did:web:example.com:a%23b",         // encoded '#'
		"did:web:example.com:alice%2Band:b", // control: only a decoded sub-delim, nothing left encoded
	} {
		id := did.MustParseDID(requested)
		base, err := DIDToURL(id)
		if err != nil {
			t.Logf("%s: DIDToURL error: %v", requested, err)
			continue
		}
		expected := base.String() + "/did.json"
		var got string
		transport := scratchTransport(func(r *http.Request) (*http.Response, error) {
			got = r.URL.String()
			return &http.Response{
				Header:     map[string][]string{"Content-Type": {"application/did+json"}},
				StatusCode: http.StatusOK,
				Body:       io.NopCloser(strings.NewReader(`{"id":"` + requested + `"}`)),
			}, nil
		})
		doc, _, err := Resolver{HttpClient: &http.Client{Transport: transport}}.Resolve(id, nil)
		t.Logf("%s: DIDToURL=%s requested=%s err=%v docNil=%v", requested, base.String(), got, err, doc == nil)
		if got != expected {
			t.Errorf("%s: document requested from %s, but the identifier encodes %s", requested, got, expected)
		}
	}
}
