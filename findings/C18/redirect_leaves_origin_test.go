// Package directory: vdr/didweb   (copy this file to vdr/didweb/zz_scratch_preexisting_redirect_test.go)
//
// Replay for C18 / C20 (finding #23), written by the seeded-change sub-agent as an observation on the unmodified code.
// It asserts property C18 ("did:web documents are fetched only over HTTPS
// from the host and path that the identifier encodes - never an IP address ... or another host", quantified over
// "all server responses (... redirects)") and FAILS ON THE UNMODIFIED CODE:
// the HTTP client that the did:web resolver uses (http/client.StrictHTTPClient wrapping a plain http.Client without
// CheckRedirect) follows a 302 from the HTTPS origin named in the DID to a plain-HTTP URL on an IP literal, and the
// document served there is accepted because its id matches. StrictMode does not help: it only inspects the first request.

package didweb

import (
	"crypto/tls"
	"crypto/x509"
	"fmt"
	"net"
	"net/http"
	"net/http/httptest"
	"sync"
	"testing"
	"time"

	"github.com/nuts-foundation/go-did/did"
	"github.com/nuts-foundation/nuts-node/http/client"
	"github.com/stretchr/testify/assert"
)

func TestVerifReplayRedirectLeavesTheOriginEncodedInTheDID(t *testing.T) {
	var id did.DID
	var mux sync.Mutex
	var otherOriginRequests []string

	// "another host": plain HTTP, addressed by IP literal
	other := httptest.NewServer(http.HandlerFunc(func(w http.ResponseWriter, r *http.Request) {
		mux.Lock()
		otherOriginRequests = append(otherOriginRequests, "http://"+r.Host+r.URL.Path)
		mux.Unlock()
		w.Header().Set("Content-Type", "application/did+json")
		_, _ = w.Write([]byte(`{"id":"` + id.String() + `"}`))
	}))
	defer other.Close()

	// the origin that the DID encodes: HTTPS on localhost:<port>; it answers with a redirect
	origin := httptest.NewTLSServer(http.HandlerFunc(func(w http.ResponseWriter, r *http.Request) {
		http.Redirect(w, r, other.URL+r.URL.Path, http.StatusFound)
	}))
	defer origin.Close()
	port := origin.Listener.Addr().(*net.TCPAddr).Port
	id = did.MustParseDID(fmt.Sprintf("did:web:localhost%%3A%d", port))

	// The real client type used by didweb.NewResolver(), only made to trust the httptest certificate
	// (which is issued for example.com/127.0.0.1, hence the ServerName override).
	pool := x509.NewCertPool()
	pool.AddCert(origin.Certificate())
	client.StrictMode = true
	defer func() { client.StrictMode = false }()
	// the transport the production resolver uses, made to trust the test certificate
	saved := client.DefaultCachingTransport
	transport := client.SafeHttpTransport.Clone()
	transport.TLSClientConfig = &tls.Config{RootCAs: pool, ServerName: "example.com"}
	client.DefaultCachingTransport = transport
	defer func() { client.DefaultCachingTransport = saved }()
	_ = time.Second

	doc, _, err := NewResolver().Resolve(id, nil)

	mux.Lock()
	defer mux.Unlock()
	assert.Empty(t, otherOriginRequests, "resolution made request(s) to an origin that is not the one encoded in %s", id)
	if err == nil {
		t.Errorf("resolved %s with a document that was served by %v", doc.ID, otherOriginRequests)
	}
}
