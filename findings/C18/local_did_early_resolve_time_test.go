package didsubject

import (
	"testing"
	"time"

	"github.com/nuts-foundation/go-did/did"
	"github.com/nuts-foundation/nuts-node/storage/orm"
	"github.com/nuts-foundation/nuts-node/vdr/resolver"
	"github.com/stretchr/testify/assert"
	"github.com/stretchr/testify/require"
)

type recordingResolver struct{ calls []did.DID }

func (r *recordingResolver) Resolve(id did.DID, _ *resolver.ResolveMetadata) (*did.Document, *resolver.DocumentMetadata, error) {
	r.calls = append(r.calls, id)
	return nil, nil, resolver.ErrNotFound
}

// the chain is the one vdr.Module.Configure builds for did:web: {ownedDIDResolver, didweb.NewResolver()}
func TestExisting_LocallyManagedDIDWithEarlyResolveTimeGoesToTheWeb(t *testing.T) {
	id := did.MustParseDID("did:web:example.com:iam:seed")
	db := testDB(t)
	vm := orm.VerificationMethod{ID: id.String() + "#1", KeyTypes: 31, Data: []byte(`{}`)}
	_, err := NewDIDDocumentManager(db).CreateOrUpdate(orm.DID{ID: id.String(), Subject: "seed"}, []orm.VerificationMethod{vm}, nil)
	require.NoError(t, err)
	web := &recordingResolver{}
	chain := resolver.ChainedDIDResolver{Resolvers: []resolver.DIDResolver{Resolver{DB: db}, web}}

	before := time.Now().Add(-time.Hour)
	_, _, err = chain.Resolve(id, &resolver.ResolveMetadata{ResolveTime: &before})

	assert.ErrorIs(t, err, resolver.ErrNotFound)
	assert.Empty(t, web.calls, "locally managed DID was looked up on the web")
}
