// Package directory: network/dag  (scratch test, shows behaviour of the UNMODIFIED code; not one of the seeded changes)
//
// Observation: parseLamportClock (and parseVersion) convert the JSON number with uint32(float64) / Version(float64)
// without checking that it is a non-negative integer that fits. A transaction whose signed `lc` header is 1.75 or
// 4294967297 (2^32+1) is parsed as clock 1 (on amd64) and admitted below a root with clock 0, although the declared
// clock is not "exactly one more than the highest among the prevs". Out-of-range float->uint32 conversion is
// implementation-specific in Go, so other architectures may compute another clock for the same bytes.
// Turned around by /verif: the test asserts the property (such a transaction is refused), so it FAILS on the code before fix #39.

package dag

import (
	"context"
	"crypto/ecdsa"
	"crypto/elliptic"
	"crypto/rand"
	"testing"
	"time"

	"github.com/lestrrat-go/jwx/v2/jwa"
	"github.com/lestrrat-go/jwx/v2/jwk"
	"github.com/lestrrat-go/jwx/v2/jws"
	"github.com/nuts-foundation/nuts-node/crypto/hash"
	"github.com/nuts-foundation/nuts-node/test/io"
)

func TestVerifReplayNonIntegerOrOverflowingLamportClockIsRefused(t *testing.T) {
	ctx := context.Background()
	db := createBBoltDB(io.TestDirectory(t))
	t.Cleanup(func() { _ = db.Close(context.Background()) })
	s, err := NewState(db, NewPrevTransactionsVerifier(), NewTransactionSignatureVerifier(nil))
	if err != nil {
		t.Fatal(err)
	}
	if err = s.Start(); err != nil {
		t.Fatal(err)
	}
	t.Cleanup(func() { _ = s.Shutdown() })
	root := CreateTestTransactionWithJWK(0)
	if err = s.Add(ctx, root, nil); err != nil {
		t.Fatal(err)
	}

	for _, lc := range []interface{}{1.75, float64(4294967297)} {
		key, _ := ecdsa.GenerateKey(elliptic.P256(), rand.Reader)
		keyAsJWK, _ := jwk.FromRaw(key.Public())
		headers := jws.NewHeaders()
		for k, v := range map[string]interface{}{
			jws.AlgorithmKey:   jwa.ES256,
			jws.ContentTypeKey: "foo/bar",
			jws.CriticalKey:    []string{signingTimeHeader, versionHeader, previousHeader, lamportClockHeader},
			jws.JWKKey:         keyAsJWK,
			lamportClockHeader: lc,
			signingTimeHeader:  time.Now().UTC().Unix(),
			versionHeader:      2,
			previousHeader:     []string{root.Ref().String()},
		} {
			if err := headers.Set(k, v); err != nil {
				t.Fatal(err)
			}
		}
		data, err := jws.Sign([]byte(hash.SHA256Sum([]byte("payload")).String()), jws.WithKey(jwa.ES256, key, jws.WithProtectedHeaders(headers)))
		if err != nil {
			t.Fatal(err)
		}
		tx, err := ParseTransaction(data)
		if err != nil {
			continue // refused by the parser
		}
		err = s.Add(ctx, tx, nil)
		present, _ := s.IsPresent(ctx, tx.Ref())
		if err == nil || present {
			t.Errorf("lc=%v: a transaction whose declared clock is not an integer one above its prevs was admitted (parsed clock=%d)", lc, tx.Clock())
		}
	}
}
