package http

import (
	"net/http"
	"os"
	"testing"

	"github.com/labstack/echo/v4"
	"github.com/nuts-foundation/nuts-node/core"
	"github.com/stretchr/testify/assert"
	"github.com/stretchr/testify/require"
)

// TestExistingDefect_MixedCaseInternalRoute: the bind table lower-cases the first path segment (getBindFromPath), so a route
// registered as /Internal/... is put on the internal listener like any other /internal route; the auth skipper (matchesPath)
// and the echo router are case-sensitive, so that route is served without a token although token_v2 is enabled.
func TestExistingDefect_MixedCaseInternalRoute(t *testing.T) {
	_, _, authorizedKeys := generateEd25519TestKey(t)
	authorizedKeysFile, err := os.CreateTemp(t.TempDir(), "authorized_keys-")
	require.NoError(t, err)
	_, _ = authorizedKeysFile.Write(authorizedKeys)
	_ = authorizedKeysFile.Close()

	engine := New(func() {}, nil)
	engine.config = createTestConfig()
	engine.config.Internal.Auth = AuthConfig{Type: BearerTokenAuthV2, Audience: "foo", AuthorizedKeysPath: authorizedKeysFile.Name()}
	require.NoError(t, engine.Configure(*core.NewServerConfig()))

	handlerRan := false
	engine.Router().GET("/Internal/landing", func(c echo.Context) error {
		handlerRan = true
		return c.String(http.StatusOK, "OK")
	})
	require.NoError(t, engine.Start())
	defer engine.Shutdown()
	assertServerStarted(t, engine.config.Internal.Address)
	assertServerStarted(t, engine.config.Public.Address)

	// the route is bound to the internal listener, not to the public one
	response, err := http.Get("http://" + engine.config.Public.Address + "/Internal/landing")
	require.NoError(t, err)
	assert.Equal(t, http.StatusNotFound, response.StatusCode)
	require.False(t, handlerRan)

	// ... but it is served without a token
	response, err = http.Get("http://" + engine.config.Internal.Address + "/Internal/landing")
	require.NoError(t, err)
	assert.Equal(t, http.StatusUnauthorized, response.StatusCode)
	assert.False(t, handlerRan, "handler bound to the internal listener through the /internal bind ran without a token")
}
