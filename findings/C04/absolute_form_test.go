package http

// Demonstration for finding #1 (C04): a request whose request-target is in absolute-form
// ("GET http://host/internal/landing HTTP/1.1") reaches a handler under /internal without any token.
// Run in-package with: go test -overlay <json> -vet=off -run TestVerifReplayAbsoluteFormBypass ./http/

import (
	"bufio"
	"fmt"
	"net"
	"os"
	"strings"
	"testing"
	"time"

	"github.com/labstack/echo/v4"
	"github.com/nuts-foundation/nuts-node/core"
)

func TestVerifReplayAbsoluteFormBypass(t *testing.T) {
	_, _, authorizedKeys := generateEd25519TestKey(t)
	f, err := os.CreateTemp("", "tmp.authorized_keys-")
	if err != nil {
		t.Fatal(err)
	}
	defer os.Remove(f.Name())
	f.Write(authorizedKeys)
	f.Close()

	engine := New(func() {}, nil)
	engine.config = createTestConfig()
	engine.config.Internal.Auth = AuthConfig{Type: BearerTokenAuthV2, Audience: "foo", AuthorizedKeysPath: f.Name()}
	if err := engine.Configure(*core.NewServerConfig()); err != nil {
		t.Fatal(err)
	}
	handlerRan := false
	engine.Router().GET("/internal/landing", func(c echo.Context) error { handlerRan = true; return c.String(200, "secret") })
	_ = engine.Start()
	defer engine.Shutdown()
	assertServerStarted(t, engine.config.Internal.Address)

	send := func(target string) string {
		conn, err := net.DialTimeout("tcp", engine.config.Internal.Address, 2*time.Second)
		if err != nil {
			t.Fatal(err)
		}
		defer conn.Close()
		fmt.Fprintf(conn, "GET %s HTTP/1.1\r\nHost: x\r\nConnection: close\r\n\r\n", target)
		conn.SetReadDeadline(time.Now().Add(3 * time.Second))
		line, _ := bufio.NewReader(conn).ReadString('\n')
		return strings.TrimSpace(line)
	}
	// origin-form, no token: must be 401 (sanity)
	if st := send("/internal/landing"); !strings.Contains(st, "401") {
		t.Fatalf("origin-form request without token: want 401, got %q", st)
	}
	handlerRan = false
	st := send("http://x/internal/landing")
	if handlerRan || !strings.Contains(st, "401") {
		t.Fatalf("VIOLATION C04: absolute-form request without token reached the /internal handler (status %q, handler ran: %v)", st, handlerRan)
	}
}
