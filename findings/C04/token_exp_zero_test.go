package tokenV2

// Demonstration for the C04 finding "token with exp=0 never expires": a token from an authorised key
// with "exp":0 (and iat=nbf=1) is accepted. jwx treats exp with Unix()==0 as "not set" and skips the
// expiry check; bestPracticesCheck only requires exp to be present and exp <= nbf/iat + 24.5h.
// The property demands a bounded lifetime for every accepted token.

import (
	"fmt"
	"net/http"
	"net/http/httptest"
	"testing"
	"time"

	"github.com/labstack/echo/v4"
	"github.com/lestrrat-go/jwx/v2/jwt"
)

func TestVerifReplayTokenExpZero(t *testing.T) {
	_, serializer, authorizedKey := generateEd25519TestKey(t)
	token := validJWT(t)
	_ = token.Set(jwt.IssuedAtKey, time.Unix(1, 0))
	_ = token.Set(jwt.NotBeforeKey, time.Unix(1, 0))
	_ = token.Set(jwt.ExpirationKey, time.Unix(0, 0))
	serialized, err := serializer.Serialize(token)
	if err != nil {
		t.Fatal(err)
	}
	middleware, err := New(nil, validHostname, authorizedKey)
	if err != nil {
		t.Fatal(err)
	}
	handler := middleware.Handler(statusOKHandler)
	request, _ := http.NewRequest("GET", "/", nil)
	request.Header.Set("Authorization", fmt.Sprintf("Bearer %v", string(serialized)))
	recorder := httptest.NewRecorder()
	if err := handler(echo.New().NewContext(request, recorder)); err == nil {
		t.Fatalf("VIOLATION C04: a token with exp=0 (issued in 1970, never expiring) was accepted with status %d", recorder.Code)
	}
}
