// Package directory: http (package http). Scratch test against the UNMODIFIED code (no seeded change applied).
//
// Observation: Engine.Configure installs the internal rate limiter (default server configuration: strict mode, did:nuts enabled)
// BEFORE the token_v2 middleware, so it runs outside of it. A request without any token to a rate limited /internal route
//   - takes a token out of the single, caller-independent bucket (a side effect of a request that failed authentication), and
//   - once 30 such requests have been made, is answered 429 instead of 401, as is the next request that carries a perfectly valid token.
// Property C04 says: "every failure is answered 401 with no side effect". This test states that and FAILS on the unmodified code.

package http

import (
	"crypto/ed25519"
	b64 "encoding/base64"
	"fmt"
	"io"
	"net"
	"net/http"
	"os"
	"path/filepath"
	"testing"
	"time"

	"github.com/google/uuid"
	"github.com/labstack/echo/v4"
	"github.com/lestrrat-go/jwx/v2/jwa"
	"github.com/lestrrat-go/jwx/v2/jwk"
	"github.com/lestrrat-go/jwx/v2/jwt"
	"github.com/nuts-foundation/nuts-node/core"
	"github.com/nuts-foundation/nuts-node/test"
	"github.com/stretchr/testify/assert"
	"github.com/stretchr/testify/require"
	"golang.org/x/crypto/ssh"
)

func TestVerifReplayUnauthenticatedRequestsDrainTheRateLimiter(t *testing.T) {
	const audience = "nuts.test.local"
	const user = "admin@test.local"

	// one authorised key
	pub, priv, err := ed25519.GenerateKey(nil)
	require.NoError(t, err)
	sshPub, err := ssh.NewPublicKey(pub)
	require.NoError(t, err)
	key, err := jwk.FromRaw(priv)
	require.NoError(t, err)
	require.NoError(t, key.Set(jwk.KeyIDKey, ssh.FingerprintSHA256(sshPub)))
	authorizedKeysPath := filepath.Join(t.TempDir(), "authorized_keys")
	line := fmt.Sprintf("%v %v %v\n", sshPub.Type(), b64.StdEncoding.EncodeToString(sshPub.Marshal()), user)
	require.NoError(t, os.WriteFile(authorizedKeysPath, []byte(line), 0600))

	// the real engine with the default server configuration (strictmode=true, didmethods=[web,nuts]) and token_v2
	engine := New(func() {}, nil)
	engine.config = DefaultConfig()
	engine.config.Internal.Address = fmt.Sprintf("localhost:%d", test.FreeTCPPort())
	engine.config.Public.Address = fmt.Sprintf("localhost:%d", test.FreeTCPPort())
	engine.config.Internal.Auth = AuthConfig{Type: BearerTokenAuthV2, Audience: audience, AuthorizedKeysPath: authorizedKeysPath}
	require.NoError(t, engine.Configure(*core.NewServerConfig()))
	handlerRuns := 0
	engine.Router().POST("/internal/vdr/v1/did", func(c echo.Context) error {
		handlerRuns++
		return c.String(http.StatusOK, "created")
	})
	require.NoError(t, engine.Start())
	defer engine.Shutdown()
	for i := 0; ; i++ {
		conn, err := net.DialTimeout("tcp", engine.config.Internal.Address, 100*time.Millisecond)
		if err == nil {
			_ = conn.Close()
			break
		}
		require.Less(t, i, 50, "server did not start")
		time.Sleep(100 * time.Millisecond)
	}

	post := func(bearer string) int {
		request, err := http.NewRequest(http.MethodPost, "http://"+engine.config.Internal.Address+"/internal/vdr/v1/did", nil)
		require.NoError(t, err)
		if bearer != "" {
			request.Header.Set("Authorization", "Bearer "+bearer)
		}
		response, err := http.DefaultClient.Do(request)
		require.NoError(t, err)
		_, _ = io.ReadAll(response.Body)
		_ = response.Body.Close()
		return response.StatusCode
	}

	// 40 requests without a token: every one of them must be answered 401
	statuses := map[int]int{}
	for i := 0; i < 40; i++ {
		statuses[post("")]++
	}
	assert.Equal(t, map[int]int{http.StatusUnauthorized: 40}, statuses, "every authentication failure is answered 401")
	assert.Equal(t, 0, handlerRuns)

	// ... and must have had no effect on what happens to a request that does carry a valid token
	now := time.Now()
	token, err := jwt.NewBuilder().Issuer(user).Subject(user).Audience([]string{audience}).
		IssuedAt(now).NotBefore(now).Expiration(now.Add(5 * time.Minute)).JwtID(uuid.NewString()).Build()
	require.NoError(t, err)
	signed, err := jwt.Sign(token, jwt.WithKey(jwa.EdDSA, key))
	require.NoError(t, err)
	assert.Equal(t, http.StatusOK, post(string(signed)), "rejected requests must not have side effects on authorised callers")
	assert.Equal(t, 1, handlerRuns)
}
