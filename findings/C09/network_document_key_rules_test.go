// Package directory: vdr/didnuts  (package didnuts, internal test)
//
// Replays for C09 (findings #19 and #20), written by the seeded-change sub-agent as observations on the unmodified code.
// Each test asserts what the property demands; a FAILING test on the unmodified tree is an observation.
package didnuts

import (
	"crypto/ecdsa"
	"crypto/elliptic"
	"crypto/rand"
	"encoding/json"
	"testing"
	"time"

	"github.com/lestrrat-go/jwx/v2/jwk"
	ssi "github.com/nuts-foundation/go-did"
	"github.com/nuts-foundation/go-did/did"
	"github.com/nuts-foundation/nuts-node/crypto/hash"
	"github.com/nuts-foundation/nuts-node/network"
	"github.com/nuts-foundation/nuts-node/network/dag"
	"github.com/nuts-foundation/nuts-node/vdr/didnuts/didstore"
	"github.com/nuts-foundation/nuts-node/vdr/resolver"
	"github.com/stretchr/testify/assert"
	"github.com/stretchr/testify/require"
	"go.uber.org/mock/gomock"
)

// scratchObsTx is a minimal dag.Transaction.
type scratchObsTx struct {
	clock        uint32
	signingKey   jwk.Key
	signingKeyID string
	signingTime  time.Time
	ref          hash.SHA256Hash
	payloadHash  hash.SHA256Hash
	prevs        []hash.SHA256Hash
}

func (s scratchObsTx) SigningKey() jwk.Key          { return s.signingKey }
func (s scratchObsTx) SigningKeyID() string         { return s.signingKeyID }
func (s scratchObsTx) SigningTime() time.Time       { return s.signingTime }
func (s scratchObsTx) SigningAlgorithm() string     { return "ES256" }
func (s scratchObsTx) Ref() hash.SHA256Hash         { return s.ref }
func (s scratchObsTx) PAL() [][]byte                { return nil }
func (s scratchObsTx) PayloadHash() hash.SHA256Hash { return s.payloadHash }
func (s scratchObsTx) PayloadType() string          { return DIDDocumentType }
func (s scratchObsTx) Previous() []hash.SHA256Hash  { return s.prevs }
func (s scratchObsTx) Version() dag.Version         { return 1 }
func (s scratchObsTx) MarshalJSON() ([]byte, error) { return []byte(`"tx"`), nil }
func (s scratchObsTx) Data() []byte                 { return nil }
func (s scratchObsTx) Clock() uint32                { return s.clock }

var _ dag.Transaction = scratchObsTx{}

// scratchObsNewKey generates a key and a verification method for it. If owner is nil the key is the "root" key of a new
// DID (DID == thumbprint of the key), otherwise it is an additional key of the given DID.
func scratchObsNewKey(t *testing.T, owner *did.DID) (*did.VerificationMethod, jwk.Key) {
	priv, err := ecdsa.GenerateKey(elliptic.P256(), rand.Reader)
	require.NoError(t, err)
	var kid string
	if owner == nil {
		kid, err = DIDKIDNamingFunc(priv.Public())
	} else {
		kid, err = didSubKIDNamingFunc(*owner)(priv.Public())
	}
	require.NoError(t, err)
	keyID := did.MustParseDIDURL(kid)
	vm, err := did.NewVerificationMethod(keyID, ssi.JsonWebKey2020, keyID.DID, priv.Public())
	require.NoError(t, err)
	asJWK, err := jwk.FromRaw(priv.Public())
	require.NoError(t, err)
	return vm, asJWK
}

func scratchObsPayload(t *testing.T, doc did.Document) ([]byte, hash.SHA256Hash) {
	payload, err := json.Marshal(doc)
	require.NoError(t, err)
	return payload, hash.SHA256Sum(payload)
}

func scratchObsAmbassador(t *testing.T) (*ambassador, didstore.Store) {
	ctrl := gomock.NewController(t)
	store := didstore.NewTestStore(t)
	networkMock := network.NewMockTransactions(ctrl)
	networkMock.EXPECT().DiscoverServices(gomock.Any()).AnyTimes()
	return NewAmbassador(networkMock, store, nil).(*ambassador), store
}

// Observation 1: "key ids equal to key thumbprints" is not enforced when the publicKeyJwk carries its own "kid" member.
// verificationMethodValidator.verifyThumbprint uses jwk.AssignKeyID, which only computes the thumbprint if the key has no kid yet.
func TestVerifReplayKidMemberBypassesThumbprintCheck(t *testing.T) {
	am, store := scratchObsAmbassador(t)
	vmRoot, jwkRoot := scratchObsNewKey(t, nil)
	doc := CreateDocument()
	doc.ID = vmRoot.ID.DID
	doc.AddCapabilityInvocation(vmRoot)
	// second key with an ID that is NOT its thumbprint
	vmOther, _ := scratchObsNewKey(t, &doc.ID)
	vmOther.ID.Fragment = "not-a-thumbprint"
	vmOther.PublicKeyJwk["kid"] = "not-a-thumbprint"
	doc.AddAssertionMethod(vmOther)
	payload, payloadHash := scratchObsPayload(t, doc)
	t.Logf("payload: %s", payload)
	tx := scratchObsTx{signingKey: jwkRoot, signingTime: time.Now(), ref: hash.RandomHash(), payloadHash: payloadHash}

	err := am.callback(tx, payload)

	assert.ErrorContains(t, err, "key thumbprint does not match ID")
	_, _, err = store.Resolve(doc.ID, nil)
	assert.ErrorIs(t, err, resolver.ErrNotFound, "document with a key id that is not the key's thumbprint became resolvable")
}

// Observation 2: verification methods that are embedded in a verification relationship (instead of being referenced)
// are not part of document.VerificationMethod and therefore skip verificationMethodValidator (id prefix, uniqueness, thumbprint).
func TestVerifReplayEmbeddedRelationshipMethodNotValidated(t *testing.T) {
	am, store := scratchObsAmbassador(t)
	vmRoot, jwkRoot := scratchObsNewKey(t, nil)
	doc := CreateDocument()
	doc.ID = vmRoot.ID.DID
	doc.AddCapabilityInvocation(vmRoot)
	payload, _ := scratchObsPayload(t, doc)
	// add an embedded method to capabilityInvocation with a foreign DID prefix and a non-thumbprint fragment
	vmForeign, _ := scratchObsNewKey(t, nil)
	vmForeign.ID.Fragment = "foo"
	foreignJSON, _ := json.Marshal(vmForeign)
	var asMap map[string]interface{}
	require.NoError(t, json.Unmarshal(payload, &asMap))
	var foreignMap map[string]interface{}
	require.NoError(t, json.Unmarshal(foreignJSON, &foreignMap))
	asMap["capabilityInvocation"] = []interface{}{vmRoot.ID.String(), foreignMap}
	payload, _ = json.Marshal(asMap)
	t.Logf("payload: %s", payload)
	tx := scratchObsTx{signingKey: jwkRoot, signingTime: time.Now(), ref: hash.RandomHash(), payloadHash: hash.SHA256Sum(payload)}

	err := am.callback(tx, payload)

	assert.Error(t, err, "document with an (embedded) key whose id is not prefixed by the DID / is not the thumbprint must be rejected")
	_, _, err = store.Resolve(doc.ID, nil)
	assert.ErrorIs(t, err, resolver.ErrNotFound, "document became resolvable")
}

