// Package directory: discovery/ (package discovery). Copy this file to discovery/zz_scratch_unmodified_test.go
//
// Scratch test for an observation on the UNMODIFIED code (not a seeded change): it FAILS on the unmodified code.
//
// clientUpdater.updateService stores the entries of one response one by one (in map order, which is random) and the first
// entry it stores already moves the client's timestamp to the server's timestamp. If storing a later entry of the same
// response returns an error, updateService returns, and the entries it did not get to are never asked for again: the next
// poll asks for everything after the server's timestamp.
// Storing an entry can be made to fail by a registrant, without anything being wrong with the server: credentials are kept
// in the node-wide 'credential' table keyed by credential ID, and CredentialStore.Store refuses a credential whose ID is
// already there with other contents. The ID of the self-attested registration credential is chosen by the registrant.
// Mallory registers on service "other" (server 2) with a self-attested credential with ID X, and on service "usecase_v1"
// (server 1) with another self-attested credential that has the same ID X. Each server accepts its registration.
// A client that follows both services can not store the second one, and misses registrations of other subjects that
// happened to be in the same response.

package discovery

import (
	"context"
	"crypto/ecdsa"
	"crypto/elliptic"
	"crypto/rand"
	"encoding/json"
	"fmt"
	"sort"
	"testing"

	"github.com/lestrrat-go/jwx/v2/jwt"
	ssi "github.com/nuts-foundation/go-did"
	"github.com/nuts-foundation/go-did/did"
	"github.com/nuts-foundation/go-did/vc"
	"github.com/nuts-foundation/nuts-node/storage"
	"github.com/nuts-foundation/nuts-node/vcr/credential"
	"github.com/stretchr/testify/require"
	"go.uber.org/mock/gomock"
)

// scratchRouter is the client's "HTTP" connection: it calls the server module that serves the endpoint.
type scratchRouter struct {
	servers map[string]*Module // endpoint -> server
	ids     map[string]string  // endpoint -> service ID
}

func (r scratchRouter) Register(ctx context.Context, endpoint string, presentation vc.VerifiablePresentation) error {
	return r.servers[endpoint].Register(ctx, r.ids[endpoint], presentation)
}

func (r scratchRouter) Get(ctx context.Context, endpoint string, timestamp int) (map[string]vc.VerifiablePresentation, string, int, error) {
	return r.servers[endpoint].Get(ctx, r.ids[endpoint], timestamp)
}

func scratchSelfAttested(holder did.DID, id string, subject map[string]interface{}) vc.VerifiableCredential {
	credentialID := ssi.MustParseURI(id)
	c := credential.AutoCorrectSelfAttestedCredential(vc.VerifiableCredential{
		Context:           []ssi.URI{vc.VCContextV1URI(), credential.NutsV1ContextURI},
		ID:                &credentialID,
		Type:              []ssi.URI{vc.VerifiableCredentialTypeV1URI(), credential.DiscoveryRegistrationCredentialTypeV1URI()},
		CredentialSubject: []interface{}{subject},
	}, holder)
	data, _ := json.Marshal(c)
	var result vc.VerifiableCredential
	_ = json.Unmarshal(data, &result)
	return result
}

func TestVerifReplayFailingEntryMustNotHideOtherRegistrations(t *testing.T) {
	ctx := context.Background()
	definitions := testDefinitions()
	const otherServiceID = "other"

	// Server 1 serves usecase_v1, server 2 serves "other"; each has its own database.
	storage1 := storage.NewTestStorageEngine(t)
	require.NoError(t, storage1.Start())
	server1, mocks1 := setupModule(t, storage1, func(module *Module) {
		module.config.Client.RefreshInterval = 0
	})
	mocks1.verifier.EXPECT().VerifyVP(gomock.Any(), true, true, nil).AnyTimes()
	storage2 := storage.NewTestStorageEngine(t)
	require.NoError(t, storage2.Start())
	server2, mocks2 := setupModule(t, storage2, func(module *Module) {
		module.config.Client.RefreshInterval = 0
		module.serverDefinitions = map[string]ServiceDefinition{otherServiceID: module.allDefinitions[otherServiceID]}
	})
	mocks2.verifier.EXPECT().VerifyVP(gomock.Any(), true, true, nil).AnyTimes()

	// The client follows both services.
	clientStorage := storage.NewTestStorageEngine(t)
	require.NoError(t, clientStorage.Start())
	router := scratchRouter{
		servers: map[string]*Module{definitions[testServiceID].Endpoint: server1, definitions[otherServiceID].Endpoint: server2},
		ids:     map[string]string{definitions[testServiceID].Endpoint: testServiceID, definitions[otherServiceID].Endpoint: otherServiceID},
	}

	// Mallory (did:example:bob) registers on both services, with two different self-attested credentials that have the same ID.
	const sharedCredentialID = "urn:uuid:6f1c3a0e-1111-4222-8333-444455556666"
	mallory := bobDID
	onOther := createPresentationCustom(mallory, func(claims map[string]interface{}, _ *vc.VerifiablePresentation) {
		claims[jwt.AudienceKey] = []string{otherServiceID}
	}, scratchSelfAttested(mallory, sharedCredentialID, map[string]interface{}{"authServerURL": "https://example.com/oauth2/mallory-1"}))
	require.NoError(t, server2.Register(ctx, otherServiceID, onOther))
	onUseCase := createPresentationCustom(mallory, func(claims map[string]interface{}, _ *vc.VerifiablePresentation) {
		claims[jwt.AudienceKey] = []string{testServiceID}
	}, vcBob, scratchSelfAttested(mallory, sharedCredentialID, map[string]interface{}{"authServerURL": "https://example.com/oauth2/mallory-2"}))
	require.NoError(t, server1.Register(ctx, testServiceID, onUseCase))

	// Six other subjects register on usecase_v1.
	var honest []string
	for i := 0; i < 6; i++ {
		subject := did.MustParseDID(fmt.Sprintf("did:example:subject%d", i))
		keyPairs[subject.String()], _ = ecdsa.GenerateKey(elliptic.P256(), rand.Reader)
		registration := createPresentationCustom(subject, func(claims map[string]interface{}, _ *vc.VerifiablePresentation) {
			claims[jwt.AudienceKey] = []string{testServiceID}
		}, createCredential(authorityDID, subject, nil, nil), createHolderCredential(subject, defaultRegistrationParams(fmt.Sprintf("subject%d", i))))
		require.NoError(t, server1.Register(ctx, testServiceID, registration))
		honest = append(honest, registration.ID.String())
	}
	sort.Strings(honest)
	serverList, _, _, err := server1.Get(ctx, testServiceID, 0)
	require.NoError(t, err)
	require.Len(t, serverList, 7, "server 1 lists Mallory and the six others")

	// The order in which the client handles the entries of a response is random, so the scenario is played a few times with a
	// fresh client. (In 1 of 6 plays the failing entry happens to be handled last and nothing but that entry is missed.)
	for attempt := 1; attempt <= 8; attempt++ {
		clientStore := setupStore(t, clientStorage.GetSQLDatabase())
		updater := newClientUpdater(definitions, clientStore, func(_ ServiceDefinition, _ vc.VerifiablePresentation) error {
			return nil
		}, router)

		require.NoError(t, updater.updateService(ctx, definitions[otherServiceID]))
		var pollErrors []string
		for poll := 0; poll < 20; poll++ { // the client keeps polling, nothing happens on the servers
			if err := updater.updateService(ctx, definitions[testServiceID]); err != nil {
				pollErrors = append(pollErrors, err.Error())
			}
		}

		found, err := clientStore.search(testServiceID, map[string]string{}, true) // even counting entries not validated
		require.NoError(t, err)
		var onClient []string
		for _, presentation := range found {
			if presentation.ID.String() != onUseCase.ID.String() {
				onClient = append(onClient, presentation.ID.String())
			}
		}
		sort.Strings(onClient)
		clientTimestamp, _ := clientStore.getTimestamp(testServiceID)
		if len(onClient) != len(honest) {
			t.Fatalf("attempt %d: after 20 polls the client (timestamp %d) holds %d of the %d registrations of the other subjects on the server; %d polls failed, first error: %v",
				attempt, clientTimestamp, len(onClient), len(honest), len(pollErrors), pollErrors[0])
		}
		t.Logf("attempt %d: nothing of the other subjects missed (%d polls failed)", attempt, len(pollErrors))
	}
}
