// Package directory: discovery/ (package discovery, internal test).
//
// Replay for C16 (finding #18): it shows that the UNMODIFIED code already violates the C16 clause
// "(starting over when the server's seed changes)" when the reset server has, at the moment of the client's poll,
// already handed out MORE timestamps than the client had seen under the old seed.
//
// clientUpdater.updateService asks Get(<old timestamp>) first and only afterwards looks at the seed. On a seed
// change it wipes its copy, but then stores the (partial) delta it just received together with the new server
// timestamp, instead of starting over from 0. Entries of the new list with a timestamp <= the old client timestamp are
// never fetched (until their subjects happen to refresh).
//
// This test FAILS on the unmodified tree.

package discovery

import (
	"context"
	"crypto/ecdsa"
	"crypto/elliptic"
	"crypto/rand"
	"sort"
	"testing"

	"github.com/lestrrat-go/jwx/v2/jwt"
	"github.com/nuts-foundation/go-did/did"
	"github.com/nuts-foundation/go-did/vc"
	"github.com/nuts-foundation/nuts-node/storage"
	"github.com/stretchr/testify/assert"
	"github.com/stretchr/testify/require"
	"go.uber.org/mock/gomock"
)

type scratchLoopback struct {
	server *Module
	polls  []int
}

func (l *scratchLoopback) Register(ctx context.Context, _ string, presentation vc.VerifiablePresentation) error {
	return l.server.Register(ctx, testServiceID, presentation)
}

func (l *scratchLoopback) Get(ctx context.Context, _ string, timestamp int) (map[string]vc.VerifiablePresentation, string, int, error) {
	l.polls = append(l.polls, timestamp)
	return l.server.Get(ctx, testServiceID, timestamp)
}

func scratchRegistration(subjectDID did.DID, subject string) vc.VerifiablePresentation {
	if keyPairs[subjectDID.String()] == nil {
		keyPairs[subjectDID.String()], _ = ecdsa.GenerateKey(elliptic.P256(), rand.Reader)
	}
	organization := createCredential(authorityDID, subjectDID, map[string]interface{}{"person": map[string]interface{}{"givenName": subject}}, nil)
	return createPresentationCustom(subjectDID, func(claims map[string]interface{}, _ *vc.VerifiablePresentation) {
		claims[jwt.AudienceKey] = []string{testServiceID}
	}, organization, createHolderCredential(subjectDID, defaultRegistrationParams(subject)))
}

func TestVerifReplaySeedChangeWithNonEmptyDelta(t *testing.T) {
	ctx := context.Background()
	serverEngine := storage.NewTestStorageEngine(t)
	require.NoError(t, serverEngine.Start())
	clientEngine := storage.NewTestStorageEngine(t)
	require.NoError(t, clientEngine.Start())

	server, serverMocks := setupModule(t, serverEngine, func(module *Module) {
		module.config.Client.RefreshInterval = 0
	})
	serverMocks.verifier.EXPECT().VerifyVP(gomock.Any(), true, true, nil).AnyTimes()
	loopback := &scratchLoopback{server: server}
	clientNode, clientMocks := setupModule(t, clientEngine, func(module *Module) {
		module.config.Client.RefreshInterval = 0
		module.serverDefinitions = map[string]ServiceDefinition{}
		module.httpClient = loopback
	})
	clientMocks.verifier.EXPECT().VerifyVP(gomock.Any(), true, true, nil).AnyTimes()
	definition := clientNode.allDefinitions[testServiceID]

	ids := func(vps []vc.VerifiablePresentation) []string {
		var result []string
		for _, vp := range vps {
			result = append(result, vp.ID.String())
		}
		sort.Strings(result)
		return result
	}
	serverLiveSet := func() []string {
		entries, _, _, err := server.Get(ctx, testServiceID, 0)
		require.NoError(t, err)
		var vps []vc.VerifiablePresentation
		for _, vp := range entries {
			vps = append(vps, vp)
		}
		return ids(vps)
	}
	clientHolds := func() []string {
		vps, err := clientNode.store.search(testServiceID, map[string]string{}, true) // everything the client stores, validated or not
		require.NoError(t, err)
		return ids(vps)
	}
	carolDID := did.MustParseDID("did:example:carol")

	// old list: alice (1), bob (2); client synced up to timestamp 2
	require.NoError(t, server.Register(ctx, testServiceID, scratchRegistration(aliceDID, aliceSubject)))
	require.NoError(t, server.Register(ctx, testServiceID, scratchRegistration(bobDID, bobSubject)))
	require.NoError(t, clientNode.clientUpdater.updateService(ctx, definition))
	require.Equal(t, serverLiveSet(), clientHolds())

	// server reset; before the client polls again THREE subjects have registered on the new list: alice (1), bob (2), carol (3)
	resetStore(t, serverEngine.GetSQLDatabase())
	require.NoError(t, server.Register(ctx, testServiceID, scratchRegistration(aliceDID, aliceSubject)))
	require.NoError(t, server.Register(ctx, testServiceID, scratchRegistration(bobDID, bobSubject)))
	require.NoError(t, server.Register(ctx, testServiceID, scratchRegistration(carolDID, "carol")))
	require.Len(t, serverLiveSet(), 3)

	for i := 0; i < 5; i++ {
		require.NoError(t, clientNode.clientUpdater.updateService(ctx, definition))
	}

	t.Logf("timestamps the client asked for: %v", loopback.polls)
	assert.Equal(t, serverLiveSet(), clientHolds(), "client must hold exactly the live set of the reset server")
}
