package discovery

// Replay for C16 (finding #15): a Discovery Server answer containing a JWT presentation without a
// jti (so presentation.ID == nil) makes the client's update routine dereference nil:
// updateService calls presentation.ID.String() before anything checked the presentation. The
// periodic update runs in a goroutine without recover, so on a real node this stops the process.
// A correct client reports an error for (or skips) the entry.

import (
	"context"
	"testing"

	"github.com/lestrrat-go/jwx/v2/jwt"
	"github.com/nuts-foundation/go-did/vc"
	"github.com/nuts-foundation/nuts-node/discovery/api/server/client"
	"github.com/nuts-foundation/nuts-node/storage"
	"github.com/stretchr/testify/require"
	"go.uber.org/mock/gomock"
)

func TestVerifReplayClientPresentationWithoutID(t *testing.T) {
	storageEngine := storage.NewTestStorageEngine(t)
	require.NoError(t, storageEngine.Start())
	store, err := newSQLStore(storageEngine.GetSQLDatabase(), testDefinitions())
	require.NoError(t, err)
	ctx := context.Background()
	serviceDefinition := testDefinitions()[testServiceID]

	vpWithoutID := createPresentationCustom(aliceDID, func(claims map[string]interface{}, _ *vc.VerifiablePresentation) {
		delete(claims, jwt.JwtIDKey)
	}, vcAlice)
	require.Nil(t, vpWithoutID.ID, "test setup: presentation must lack an id")

	ctrl := gomock.NewController(t)
	httpClient := client.NewMockHTTPClient(ctrl)
	updater := newClientUpdater(testDefinitions(), store, alwaysOkVerifier, httpClient)
	httpClient.EXPECT().Get(ctx, serviceDefinition.Endpoint, 0).Return(map[string]vc.VerifiablePresentation{"1": vpWithoutID}, testSeed, 1, nil)

	require.NotPanics(t, func() {
		_ = updater.updateService(ctx, serviceDefinition)
	}, "a server-supplied presentation without id must not crash the client")
}
