// Replay of finding #48 (C13). Package directory: vdr/didsubject.
// It documented behaviour of the pinned code that contradicts property C13: the assertions below describe what the
// property demands; they failed before fix f9df89c.

package didsubject

import (
	"context"
	"errors"
	"fmt"
	"testing"

	"github.com/google/uuid"
	"github.com/nuts-foundation/go-did/did"
	"github.com/nuts-foundation/nuts-node/audit"
	"github.com/nuts-foundation/nuts-node/storage/orm"
	"github.com/stretchr/testify/assert"
	"github.com/stretchr/testify/require"
)

type scratchMethod struct {
	method    string
	commitErr error
}

func (s *scratchMethod) NewDocument(_ context.Context, _ orm.DIDKeyFlags) (*orm.DidDocument, error) {
	return &orm.DidDocument{DID: orm.DID{ID: fmt.Sprintf("did:%s:%s", s.method, uuid.NewString())}}, nil
}
func (s *scratchMethod) NewVerificationMethod(_ context.Context, controller did.DID, _ orm.DIDKeyFlags) (*did.VerificationMethod, error) {
	return &did.VerificationMethod{ID: did.MustParseDIDURL(controller.String() + "#" + uuid.NewString())}, nil
}
func (s *scratchMethod) Commit(_ context.Context, _ orm.DIDChangeLog) error { return s.commitErr }
func (s *scratchMethod) IsCommitted(_ context.Context, _ orm.DIDChangeLog) (bool, error) {
	return s.commitErr == nil, nil
}

// A Create whose publish fails removes the document versions but leaves the rows in the `did` table behind.
// Consequences: the subject keeps "existing" with DIDs that have no document, and a repeated Create for the same
// subject name can never succeed (ErrSubjectAlreadyExists).
func TestVerifReplayFailedCreateLeavesDIDsBehind(t *testing.T) {
	ctx := audit.TestContext()
	nuts := &scratchMethod{method: "nuts", commitErr: errors.New("network unavailable")}
	web := &scratchMethod{method: "web"}
	m := &SqlManager{DB: testDB(t), MethodManagers: map[string]MethodManager{"nuts": nuts, "web": web}}
	opts := DefaultCreationOptions().With(SubjectCreationOption{Subject: "subject"})

	_, _, err := m.Create(ctx, opts)
	require.ErrorIs(t, err, nuts.commitErr)
	m.Rollback(ctx)

	// "not at all": the subject should not exist
	exists, err := m.Exists(ctx, "subject")
	require.NoError(t, err)
	assert.False(t, exists, "subject of a failed Create must not exist")
	dids, err := m.ListDIDs(ctx, "subject")
	assert.ErrorIs(t, err, ErrSubjectNotFound, "got DIDs: %v", dids)
	for _, id := range dids {
		_, err := NewDIDDocumentManager(m.DB).Latest(id, nil)
		t.Logf("DID %s is listed for the subject, resolving its document gives: %v", id, err)
	}

	// "a repeated attempt can succeed"
	nuts.commitErr = nil
	_, _, err = m.Create(ctx, opts)
	assert.NoError(t, err, "repeated Create after a failed publish must be able to succeed")
}
