package didsubject

import (
	"testing"

	"github.com/nuts-foundation/go-did/did"
	"github.com/nuts-foundation/nuts-node/audit"
	"github.com/nuts-foundation/nuts-node/storage/orm"
	"github.com/stretchr/testify/assert"
	"github.com/stretchr/testify/require"
)

// TestVerifReplaySweepWithDisabledMethod: an operation stops between the database write and the publish, and the node is
// restarted with one of the DID methods no longer enabled (didmethods changed). The rollback sweep looked up the method
// manager of every change record in the map without checking: a nil interface call, i.e. a panic in the rollback goroutine
// at every start. The sweep must leave a transaction it cannot judge alone (and not crash).
func TestVerifReplaySweepWithDisabledMethod(t *testing.T) {
	ctx := audit.TestContext()
	db := testDB(t)
	m := SqlManager{DB: db, MethodManagers: map[string]MethodManager{
		"example": testMethod{},
		"test":    testMethod{method: "test"},
	}}
	_, subject, err := m.Create(ctx, DefaultCreationOptions())
	require.NoError(t, err)
	// the operation writes its versions and change records, publishing fails for every method and the clean-up did not run: records stay
	failing := SqlManager{DB: db, MethodManagers: map[string]MethodManager{
		"example": testMethod{error: assert.AnError},
		"test":    testMethod{method: "test", error: assert.AnError},
	}}
	_, _ = failing.CreateService(ctx, subject, did.Service{Type: "test", ServiceEndpoint: "https://example.com"})
	// put change records back the way a stop before the clean-up leaves them
	var versions []orm.DidDocument
	require.NoError(t, db.Find(&versions).Error)
	require.NotEmpty(t, versions)
	for _, v := range versions {
		require.NoError(t, db.Exec("INSERT INTO did_change_log (did_document_version_id, type, transaction_id) VALUES (?, ?, ?)", v.ID, "updated", "tx-1").Error)
	}
	require.NoError(t, db.Exec("UPDATE did_document_version SET updated_at = updated_at - 120").Error)

	// restart with did:test no longer enabled
	restarted := SqlManager{DB: db, MethodManagers: map[string]MethodManager{"example": testMethod{committed: true}}}
	assert.NotPanics(t, func() { restarted.Rollback(ctx) })
}
