package didsubject

import (
	"context"
	"testing"

	"github.com/nuts-foundation/go-did/did"
	"github.com/nuts-foundation/nuts-node/audit"
	"github.com/nuts-foundation/nuts-node/storage/orm"
	"github.com/stretchr/testify/assert"
	"github.com/stretchr/testify/require"
)

type edStop struct{}

// edMethod is a method manager with a "network": Commit publishes the document version, IsCommitted compares the change with the
// latest published document version (like did:nuts does with the hash of the document; the documents of the testMethod stub are all equal, so the version ID is used). If stop is set the process "stops" before publishing.
type edMethod struct {
	testMethod
	stop      *bool
	published map[string]string
}

func (m edMethod) Commit(_ context.Context, change orm.DIDChangeLog) error {
	if *m.stop {
		panic(edStop{})
	}
	m.published[change.DIDDocumentVersion.DID.ID] = change.DIDDocumentVersionID
	return nil
}

func (m edMethod) IsCommitted(_ context.Context, change orm.DIDChangeLog) (bool, error) {
	return m.published[change.DIDDocumentVersion.DID.ID] == change.DIDDocumentVersionID, nil
}

// An operation stops between the database write and the publish. Before the sweep considers its change records
// (they must be a minute old) another operation on the same subject is done: it builds on the unpublished version.
// The sweep then removes the unpublished version from underneath the newer one.
func TestExistingDefect_OperationBuildsOnAbandonedVersion(t *testing.T) {
	ctx := audit.TestContext()
	db := testDB(t)
	stop := false
	m := SqlManager{DB: db, MethodManagers: map[string]MethodManager{
		"example": edMethod{testMethod: testMethod{}, stop: &stop, published: map[string]string{}},
		"test":    edMethod{testMethod: testMethod{method: "test"}, stop: &stop, published: map[string]string{}},
	}}
	_, subject, err := m.Create(ctx, DefaultCreationOptions())
	require.NoError(t, err)
	dids, err := m.ListDIDs(ctx, subject)
	require.NoError(t, err)

	// operation 1 (add key) stops before publishing
	stop = true
	func() {
		defer func() {
			if r := recover(); r != nil {
				if _, ok := r.(edStop); !ok {
					panic(r)
				}
			}
		}()
		_, _ = m.AddVerificationMethod(ctx, subject, orm.AssertionKeyUsage())
	}()
	stop = false
	var abandoned []orm.DIDChangeLog
	require.NoError(t, db.Preload("DIDDocumentVersion").Preload("DIDDocumentVersion.VerificationMethods").Find(&abandoned).Error)
	require.Len(t, abandoned, 2)
	abandonedKeys := map[string]bool{}
	for _, change := range abandoned {
		for _, vm := range change.DIDDocumentVersion.VerificationMethods {
			abandonedKeys[vm.ID] = true
		}
	}
	require.Len(t, abandonedKeys, 2)

	// restart: the sweep runs, the change records are not a minute old yet
	m.Rollback(ctx)
	// operation 2 (add service) succeeds
	_, err = m.CreateService(ctx, subject, did.Service{Type: "test", ServiceEndpoint: "https://example.com"})
	require.NoError(t, err)
	// a minute later the sweep runs
	require.NoError(t, db.Exec("UPDATE did_document_version SET updated_at = updated_at - 120").Error)
	m.Rollback(ctx)

	var count int64
	require.NoError(t, db.Model(&orm.DIDChangeLog{}).Count(&count).Error)
	assert.EqualValues(t, 0, count)
	for _, id := range dids {
		var versions []int
		require.NoError(t, db.Model(&orm.DidDocument{}).Where("did = ?", id.String()).Order("version").Pluck("version", &versions).Error)
		for i, v := range versions {
			assert.Equalf(t, i, v, "versions of %s are not consecutive: %v", id, versions)
		}
		latest, err := NewDIDDocumentManager(db).Latest(id, nil)
		require.NoError(t, err)
		for _, vm := range latest.VerificationMethods {
			assert.Falsef(t, abandonedKeys[vm.ID], "key %s of the abandoned version is in the published document of %s", vm.ID, id)
		}
	}
}

// The sweep selects change records per document version (updated_at older than a minute), not per transaction.
// The versions of one operation are written around a second boundary: when the sweep runs in between, it only sees the
// did:web half of the operation, finds it committed, and removes the change records of the whole transaction,
// so the unpublished did:nuts version stays forever.
func TestExistingDefect_SweepSeesHalfOfATransaction(t *testing.T) {
	ctx := audit.TestContext()
	db := testDB(t)
	stop := false
	m := SqlManager{DB: db, MethodManagers: map[string]MethodManager{
		"example": edMethod{testMethod: testMethod{}, stop: &stop, published: map[string]string{}}, // like did:nuts
		"test":    testMethod{method: "test", committed: true},                                      // like did:web
	}}
	_, subject, err := m.Create(ctx, DefaultCreationOptions())
	require.NoError(t, err)
	dids, err := m.ListDIDs(ctx, subject)
	require.NoError(t, err)

	stop = true
	func() {
		defer func() {
			if r := recover(); r != nil {
				if _, ok := r.(edStop); !ok {
					panic(r)
				}
			}
		}()
		_, _ = m.CreateService(ctx, subject, did.Service{Type: "test", ServiceEndpoint: "https://example.com"})
	}()
	stop = false
	// the did:test version was written just before the second boundary, the did:example version just after: 60.5 and 59.5 seconds ago
	require.NoError(t, db.Exec("UPDATE did_document_version SET updated_at = updated_at - 61 WHERE version = 1 AND did LIKE 'did:test:%'").Error)
	require.NoError(t, db.Exec("UPDATE did_document_version SET updated_at = updated_at - 59 WHERE version = 1 AND did LIKE 'did:example:%'").Error)
	m.Rollback(ctx)
	// and the next sweep, a minute later
	require.NoError(t, db.Exec("UPDATE did_document_version SET updated_at = updated_at - 60").Error)
	m.Rollback(ctx)

	var count int64
	require.NoError(t, db.Model(&orm.DIDChangeLog{}).Count(&count).Error)
	assert.EqualValues(t, 0, count)
	for _, id := range dids {
		latest, err := NewDIDDocumentManager(db).Latest(id, nil)
		require.NoError(t, err)
		assert.Equalf(t, 0, latest.Version, "%s keeps the version that was never published", id)
	}
}
