// Package directory: vdr/didnuts (package didnuts). SCRATCH test, not a seed demo.
// It documents behaviour of the UNMODIFIED code that contradicts property C13: the assertions below describe what the
// property demands, and they FAIL on the unmodified code.

package didnuts

import (
	"context"
	"fmt"
	"testing"
	"time"

	"github.com/google/uuid"
	"github.com/nuts-foundation/go-did/did"
	"github.com/nuts-foundation/nuts-node/audit"
	nutsCrypto "github.com/nuts-foundation/nuts-node/crypto"
	"github.com/nuts-foundation/nuts-node/network"
	"github.com/nuts-foundation/nuts-node/network/dag"
	"github.com/nuts-foundation/nuts-node/storage"
	"github.com/nuts-foundation/nuts-node/storage/orm"
	"github.com/nuts-foundation/nuts-node/vdr/didnuts/didstore"
	"github.com/nuts-foundation/nuts-node/vdr/didsubject"
	"github.com/stretchr/testify/assert"
	"github.com/stretchr/testify/require"
	"go.uber.org/mock/gomock"
)

// scratchWebMethod behaves like vdr/didweb.Manager for Commit/IsCommitted (no-op / always true)
type scratchWebMethod struct{}

func (s scratchWebMethod) NewDocument(_ context.Context, _ orm.DIDKeyFlags) (*orm.DidDocument, error) {
	return &orm.DidDocument{DID: orm.DID{ID: fmt.Sprintf("did:web:example.com:iam:%s", uuid.NewString())}}, nil
}
func (s scratchWebMethod) NewVerificationMethod(_ context.Context, controller did.DID, _ orm.DIDKeyFlags) (*did.VerificationMethod, error) {
	return &did.VerificationMethod{ID: did.MustParseDIDURL(controller.String() + "#" + uuid.NewString())}, nil
}
func (s scratchWebMethod) Commit(_ context.Context, _ orm.DIDChangeLog) error { return nil }
func (s scratchWebMethod) IsCommitted(_ context.Context, _ orm.DIDChangeLog) (bool, error) {
	return true, nil
}

// The process stops during Create, after tx1 and before the did:nuts document was published on the network.
// The sweep then asks the REAL didnuts.Manager.IsCommitted, which resolves the DID in the REAL did:nuts store. The DID was
// never published, so the store answers resolver.ErrNotFound, IsCommitted returns that as an error and
// SqlManager.Rollback aborts its whole DB transaction ("failed to rollback DID documents"). This repeats on every sweep:
// the abandoned Create is never rolled back, and all other pending change records are stuck behind it too.
func TestVerifReplaySweepBlockedByNeverPublishedNutsDID(t *testing.T) {
	ctx := audit.TestContext()
	storageEngine := storage.NewTestStorageEngine(t)
	require.NoError(t, storageEngine.Start())
	db := storageEngine.GetSQLDatabase()
	store := didstore.TestStore(t, storageEngine)
	ctrl := gomock.NewController(t)
	networkClient := network.NewMockTransactions(ctrl)
	keyStore := nutsCrypto.NewDatabaseCryptoInstance(db)
	nutsManager := NewManager(keyStore, networkClient, store, store, db)
	m := &didsubject.SqlManager{DB: db, KeyStore: keyStore, MethodManagers: map[string]didsubject.MethodManager{
		"nuts": nutsManager,
		"web":  scratchWebMethod{},
	}}

	// process stop while publishing
	networkClient.EXPECT().CreateTransaction(gomock.Any(), gomock.Any()).DoAndReturn(func(_ context.Context, _ network.Template) (dag.Transaction, error) {
		panic("simulated process stop")
	})
	func() {
		defer func() { require.Equal(t, "simulated process stop", recover()) }()
		_, _, _ = m.Create(ctx, didsubject.DefaultCreationOptions().With(didsubject.SubjectCreationOption{Subject: "subject"}))
		t.Fatal("expected simulated process stop")
	}()
	var count int64
	require.NoError(t, db.Model(&orm.DIDChangeLog{}).Count(&count).Error)
	require.Equal(t, int64(2), count, "pending change records of the interrupted Create")

	// an unrelated, older pending change record of a did:web DID (hand-inserted like TestManager_rollback does);
	// did:web is always committed so the sweep is expected to just remove the record.
	old := time.Now().Add(-time.Hour).Unix()
	require.NoError(t, db.Save(&orm.DID{ID: "did:web:example.com:iam:other", Subject: "other"}).Error)
	require.NoError(t, db.Save(&orm.DidDocument{ID: "other-v0", DidID: "did:web:example.com:iam:other", UpdatedAt: old}).Error)
	require.NoError(t, db.Save(&orm.DIDChangeLog{DIDDocumentVersionID: "other-v0", Type: orm.DIDChangeCreated, TransactionID: "other-tx"}).Error)

	// a minute passes, the sweep runs
	require.NoError(t, db.Exec("UPDATE did_document_version SET updated_at = updated_at - 120 WHERE id <> 'other-v0'").Error)
	m.Rollback(ctx)

	require.NoError(t, db.Model(&orm.DIDChangeLog{}).Count(&count).Error)
	assert.Equal(t, int64(0), count, "no change records may remain after the sweep")
	var versions int64
	require.NoError(t, db.Model(&orm.DidDocument{}).Where("id <> 'other-v0'").Count(&versions).Error)
	assert.Equal(t, int64(0), versions, "document versions of the abandoned Create must be gone after the sweep")
	dids, err := m.ListDIDs(ctx, "subject")
	if err == nil {
		for _, id := range dids {
			_, _, err := didsubject.Resolver{DB: db}.Resolve(id, nil)
			t.Logf("after the sweep %s still resolves from SQL: err=%v", id, err)
		}
	}
}
