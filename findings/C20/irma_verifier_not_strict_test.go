// Package directory: auth/services/irma  (scratch test about the UNMODIFIED code; it FAILS on the unmodified code)
//
// C20: "non-production identity schemes ... are rejected" with strict mode on.
// auth.Configure refuses auth.irma.schememanager != pbdf in strict mode, but that option only decides which attributes
// the node ASKS for when it starts a signing session. What the node ACCEPTS when it verifies an IRMA-signed contract
// (a VP made elsewhere) is decided by parseSignerAttributes(strictMode, ...), which drops attributes of any scheme
// manager other than pbdf "in strictMode". That strictMode comes from Verifier.strictMode - and nothing ever assigns
// that field: NewSignerAndVerifier builds &Verifier{IrmaConfig, Templates} and notary.Configure (the only caller) passes
// strictness only as irma.Config.Production, which only reaches the irmaserver configuration.
// So in a node in strict mode, attributes from e.g. the irma-demo scheme (anyone can issue those to themselves) are
// accepted exactly like pbdf attributes: the scheme manager prefix is stripped and irma-demo.gemeente.personalData.fullname
// becomes the same "gemeente.personalData.fullname" the contract template asks for.
// (Whether the signature verifies then only depends on the irma-demo scheme being present in <datadir>/irma, which
// irmago's default scheme download provides; the sandbox has no such scheme and no network, hence no end-to-end fixture.)

package irma

import (
	"testing"

	irma "github.com/privacybydesign/irmago"
	"github.com/stretchr/testify/assert"
	"github.com/stretchr/testify/require"
)

func TestVerifReplayStrictNodeHasStrictIrmaVerifier(t *testing.T) {
	// the configuration notary.Configure builds when the node runs in strict mode (Production: n.config.StrictMode)
	_, verifier, err := NewSignerAndVerifier(Config{
		IrmaConfigPath:        "../../../development/irma",
		IrmaSchemeManager:     "pbdf",
		AutoUpdateIrmaSchemas: false,
		Production:            true,
		PublicURL:             "https://nuts.nl",
	})
	require.NoError(t, err)

	// the strictness VerifyVP hands to the contract verifier (validator.go: strictMode: v.strictMode)
	assert.True(t, verifier.strictMode, "node is in strict mode, but the IRMA verifier is not")

	// and what that means for a disclosed attribute of a non-production scheme
	value := "Demo User"
	disclosed := [][]*irma.DisclosedAttribute{{{
		RawValue:   &value,
		Identifier: irma.NewAttributeTypeIdentifier("irma-demo.gemeente.personalData.fullname"),
	}}}
	attrs := parseSignerAttributes(verifier.strictMode, disclosed)
	assert.Empty(t, attrs, "attribute of the irma-demo scheme accepted as signer attribute in strict mode")
}
