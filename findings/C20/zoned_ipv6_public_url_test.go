package core

import "testing"

// TestVerifReplayZonedIPv6PublicURL: a public URL whose host is an IPv6 literal WITH A ZONE (https://[fe80::1%25eth0]/) was
// accepted in strict mode: url.URL.Hostname() keeps the zone, net.ParseIP does not accept one, the host was not seen as an IP.
func TestVerifReplayZonedIPv6PublicURL(t *testing.T) {
	for _, in := range []string{"https://[fe80::1%25eth0]/", "https://[::1%25lo]:8443/x"} {
		if u, err := ParsePublicURL(in, true); err == nil {
			t.Errorf("strict mode accepted %s (hostname=%q)", in, u.Hostname())
		}
	}
	// not strict: still accepted
	if _, err := ParsePublicURL("https://[::1%25lo]:8443/x", false); err != nil {
		t.Errorf("non-strict mode refused a zoned literal: %v", err)
	}
}
