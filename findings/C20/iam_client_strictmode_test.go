package auth

// Demonstration for the C20 finding "IAM client never strict": Auth.Configure does not remember
// ServerConfig.Strictmode, so IAMClient() always builds the OpenID4VP/IAM HTTP client with
// strictMode=false. On a strict node the client then accepts endpoints on reserved hosts / IPs
// (only the plain-HTTP guard of the shared HTTP client remains).

import (
	"context"
	"strings"
	"testing"

	"github.com/nuts-foundation/nuts-node/core"
	"github.com/nuts-foundation/nuts-node/crypto"
	"github.com/nuts-foundation/nuts-node/jsonld"
	"github.com/nuts-foundation/nuts-node/pki"
	"github.com/nuts-foundation/nuts-node/vcr"
	"github.com/nuts-foundation/nuts-node/vdr"
	"go.uber.org/mock/gomock"
)

func TestVerifReplayIAMClientStrictMode(t *testing.T) {
	serverConfig := *core.NewServerConfig() // strict mode is the default
	if !serverConfig.Strictmode {
		t.Fatal("expected strict mode by default")
	}
	serverConfig.URL = "https://nuts.nl"
	config := DefaultConfig()
	config.ContractValidators = []string{"uzi"} // none of the built-in means: keeps Configure light
	ctrl := gomock.NewController(t)
	pkiMock := pki.NewMockProvider(ctrl)
	pkiMock.EXPECT().CreateTLSConfig(gomock.Any())
	vdrInstance := vdr.NewMockVDR(ctrl)
	vdrInstance.EXPECT().Resolver().AnyTimes()
	vcrInstance := vcr.NewTestVCRInstance(t)
	i := NewAuthInstance(config, vdrInstance, nil, vcrInstance, crypto.NewMemoryCryptoInstance(t), nil, jsonld.NewTestJSONLDManager(t), pkiMock)
	if err := i.Configure(serverConfig); err != nil {
		t.Fatal(err)
	}
	// a reserved host over https: must be refused by the strict URL check before any request is made
	_, err := i.IAMClient().PresentationDefinition(context.Background(), "https://localhost:1/presentation_definition")
	if err == nil || !strings.Contains(err.Error(), "reserved") {
		t.Fatalf("VIOLATION C20: strict node, IAM client did not refuse a reserved host with the strict-mode URL check (err = %v)", err)
	}
}
