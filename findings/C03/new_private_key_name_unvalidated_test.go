package fs

// Replay for C03 (finding #22): the key-name validating wrapper that is put around every storage
// backend validates the name for Get/Exists/Save/Delete but not for NewPrivateKey, so a name that
// addresses storage outside the key store's directory is passed to the backend and a private key is
// written there. (The node itself only passes generated UUIDs; the wrapper is the documented guard.)

import (
	"context"
	"os"
	"path/filepath"
	"testing"

	"github.com/nuts-foundation/nuts-node/crypto/storage/spi"
	"github.com/stretchr/testify/assert"
	"github.com/stretchr/testify/require"
)

func TestVerifReplayNewPrivateKeyNameUnvalidated(t *testing.T) {
	root := t.TempDir()
	keyDir := filepath.Join(root, "keys")
	backend, err := NewFileSystemBackend(keyDir)
	require.NoError(t, err)
	store := spi.NewValidatedKIDBackendWrapper(backend, spi.KidPattern)

	_, _, err = store.NewPrivateKey(context.Background(), "../escaped")

	assert.Error(t, err, "a key name outside the key store's namespace must be refused")
	entries, _ := os.ReadDir(root)
	for _, entry := range entries {
		assert.Equal(t, "keys", entry.Name(), "private key material written outside the key directory: %s", entry.Name())
	}
}
