package crypto

import (
	"encoding/base64"
	"strings"
	"testing"

	"github.com/lestrrat-go/jwx/v2/jwk"
	"github.com/nuts-foundation/nuts-node/audit"
	"github.com/stretchr/testify/require"
)

// TestExistingDefect_SignJWTPrivateJWKHeader: SignJWS refuses a jwk header that holds a private key, SignJWT (also the KeyStore
// and MemoryJWTSigner methods, which pass caller-supplied headers on) has no such guard: the private scalar ends up in the token header.
func TestExistingDefect_SignJWTPrivateJWKHeader(t *testing.T) {
	key, err := GenerateJWK() // private JWK, as held for user sessions
	require.NoError(t, err)
	_ = key.Set(jwk.KeyIDKey, "kid")
	signer := MemoryJWTSigner{Key: key}

	token, err := signer.SignJWT(audit.TestContext(), map[string]interface{}{"iss": "me"}, map[string]interface{}{"jwk": key}, "kid")
	if err != nil {
		return // refused: fine
	}
	header, err := base64.RawURLEncoding.DecodeString(strings.Split(token, ".")[0])
	require.NoError(t, err)
	require.NotContains(t, string(header), `"d":`, "private key in JWT header: %s", header)
}
