package spi

import (
	"context"
	"crypto"
	"testing"

	"github.com/nuts-foundation/nuts-node/core"
)

// recordingBackend records every key name that reaches the backend behind the validation wrapper.
type recordingBackend struct{ names []string }

func (r *recordingBackend) Name() string                              { return "recording" }
func (r *recordingBackend) CheckHealth() map[string]core.Health      { return nil }
func (r *recordingBackend) NewPrivateKey(_ context.Context, keyName string) (crypto.PublicKey, string, error) {
	r.names = append(r.names, keyName)
	return nil, "", nil
}
func (r *recordingBackend) GetPrivateKey(_ context.Context, keyName string, _ string) (crypto.Signer, error) {
	r.names = append(r.names, keyName)
	return nil, ErrNotFound
}
func (r *recordingBackend) PrivateKeyExists(_ context.Context, keyName string, _ string) (bool, error) {
	r.names = append(r.names, keyName)
	return false, nil
}
func (r *recordingBackend) SavePrivateKey(_ context.Context, keyName string, _ crypto.PrivateKey) error {
	r.names = append(r.names, keyName)
	return nil
}
func (r *recordingBackend) ListPrivateKeys(_ context.Context) []KeyNameVersion { return nil }
func (r *recordingBackend) DeletePrivateKey(_ context.Context, keyName string) error {
	r.names = append(r.names, keyName)
	return nil
}

// TestVerifReplayDotDotKeyName: the key names "." and ".." match KidPattern (dots are allowed, only the slash is not), but
// in the path-based backends they address the PARENT of the key namespace (Vault: privateKeyPath("kv", "..") cleans to "kv";
// external store: /secrets/..). The validation wrapper must refuse them before any backend is reached.
func TestVerifReplayDotDotKeyName(t *testing.T) {
	for _, name := range []string{"..", "."} {
		backend := &recordingBackend{}
		w := NewValidatedKIDBackendWrapper(backend, KidPattern)
		ctx := context.Background()
		_, _, _ = w.NewPrivateKey(ctx, name)
		_, _ = w.GetPrivateKey(ctx, name, "")
		_, _ = w.PrivateKeyExists(ctx, name, "")
		_ = w.SavePrivateKey(ctx, name, nil)
		_ = w.DeletePrivateKey(ctx, name)
		if len(backend.names) != 0 {
			t.Fatalf("key name %q reached the backend %d times: it addresses storage outside the key store's namespace", name, len(backend.names))
		}
	}
}
