package azure

import (
	"context"
	"crypto"
	"crypto/ecdsa"
	"crypto/elliptic"
	"crypto/rand"
	"crypto/sha256"
	"errors"
	"testing"
	"time"

	"github.com/Azure/azure-sdk-for-go/sdk/azcore/runtime"
	"github.com/Azure/azure-sdk-for-go/sdk/azcore/to"
	"github.com/Azure/azure-sdk-for-go/sdk/security/keyvault/azkeys"
	"github.com/stretchr/testify/require"
)

// existingDefectVault is a fake Azure Key Vault that holds one key name with several versions; "" addresses the latest version (as Azure does).
type existingDefectVault struct {
	versions map[string]*ecdsa.PrivateKey
	latest   string
}

func (v existingDefectVault) key(version string) (*ecdsa.PrivateKey, string, error) {
	if version == "" {
		version = v.latest
	}
	k, ok := v.versions[version]
	if !ok {
		return nil, "", errors.New("not found")
	}
	return k, version, nil
}

func (v existingDefectVault) GetKey(_ context.Context, name string, version string, _ *azkeys.GetKeyOptions) (azkeys.GetKeyResponse, error) {
	k, version, err := v.key(version)
	if err != nil {
		return azkeys.GetKeyResponse{}, err
	}
	id := azkeys.ID("https://vault.example/keys/" + name + "/" + version)
	return azkeys.GetKeyResponse{KeyBundle: azkeys.KeyBundle{Key: &azkeys.JSONWebKey{
		KID: &id,
		Kty: to.Ptr(azkeys.KeyTypeEC),
		Crv: to.Ptr(azkeys.CurveNameP256),
		X:   k.X.FillBytes(make([]byte, 32)),
		Y:   k.Y.FillBytes(make([]byte, 32)),
	}}}, nil
}

func (v existingDefectVault) Sign(_ context.Context, _ string, version string, parameters azkeys.SignParameters, _ *azkeys.SignOptions) (azkeys.SignResponse, error) {
	k, _, err := v.key(version)
	if err != nil {
		return azkeys.SignResponse{}, err
	}
	r, s, err := ecdsa.Sign(rand.Reader, k, parameters.Value)
	if err != nil {
		return azkeys.SignResponse{}, err
	}
	result := append(r.FillBytes(make([]byte, 32)), s.FillBytes(make([]byte, 32))...)
	return azkeys.SignResponse{KeyOperationResult: azkeys.KeyOperationResult{Result: result}}, nil
}

func (v existingDefectVault) CreateKey(context.Context, string, azkeys.CreateKeyParameters, *azkeys.CreateKeyOptions) (azkeys.CreateKeyResponse, error) {
	return azkeys.CreateKeyResponse{}, errors.New("not implemented")
}
func (v existingDefectVault) DeleteKey(context.Context, string, *azkeys.DeleteKeyOptions) (azkeys.DeleteKeyResponse, error) {
	return azkeys.DeleteKeyResponse{}, errors.New("not implemented")
}
func (v existingDefectVault) NewListKeyPropertiesPager(*azkeys.ListKeyPropertiesOptions) *runtime.Pager[azkeys.ListKeyPropertiesResponse] {
	return nil
}

// TestExistingDefect_AzureSignsWithLatestVersion: the key reference of kid K points at (key name, version v1); Resolve(K) and the signer's
// Public() report the public key of v1 - but Sign() asks Azure to sign with version "" (= the latest version).
// After the key was rotated in Azure Key Vault (new version v2), signatures for K do not verify with the key published for K.
func TestExistingDefect_AzureSignsWithLatestVersion(t *testing.T) {
	v1, _ := ecdsa.GenerateKey(elliptic.P256(), rand.Reader)
	v2, _ := ecdsa.GenerateKey(elliptic.P256(), rand.Reader)
	vault := existingDefectVault{versions: map[string]*ecdsa.PrivateKey{"v1": v1, "v2": v2}, latest: "v2"}
	store := Keyvault{client: vault, timeOut: time.Second}

	signer, err := store.GetPrivateKey(context.Background(), "key-name", "v1")
	require.NoError(t, err)
	require.True(t, v1.PublicKey.Equal(signer.Public()), "the published key is that of the referenced version")

	digest := sha256.Sum256([]byte("message"))
	signature, err := signer.Sign(rand.Reader, digest[:], crypto.SHA256)
	require.NoError(t, err)

	require.True(t, ecdsa.VerifyASN1(signer.Public().(*ecdsa.PublicKey), digest[:], signature),
		"signature does not verify with the public key that the key store publishes for this key (name, version v1)")
}
