// Replay of finding #53 (C01), package directory vcr/test (uses the helpers of formats_integration_test.go / openid4vci_integration_test.go).
// A JSON-LD credential issued and signed by the node is altered by adding an "@context" member inside credentialSubject: the
// embedded context is not part of the signed dataset but changes how the members map to it, so the altered documents
// canonicalize to the signed dataset, pass jsonld.AllFieldsDefined, and were reported valid although the members the node
// reads differ from what the issuer signed. Both sub tests failed before the fix.
// Both sub tests assert that the altered credential does NOT verify: they FAIL on the unmodified code.
package test

import (
	"encoding/json"
	"testing"

	"github.com/nuts-foundation/go-did/vc"
	"github.com/nuts-foundation/nuts-node/audit"
	"github.com/nuts-foundation/nuts-node/test/node"
	"github.com/nuts-foundation/nuts-node/vcr"
	v2 "github.com/nuts-foundation/nuts-node/vcr/api/vcr/v2"
	"github.com/nuts-foundation/nuts-node/vcr/credential"
	"github.com/stretchr/testify/assert"
	"github.com/stretchr/testify/require"
)

func TestVerifReplayEmbeddedContextAltersSignedCredential(t *testing.T) {
	ctx := audit.TestContext()
	_, _, system := node.StartServer(t)
	issuerDID := registerDID(t, system)
	subjectDID := registerDID(t, system)
	vcrAPI := v2.Wrapper{VCR: system.FindEngineByName("vcr").(vcr.VCR)}
	publish := false

	tamperAndVerify := func(t *testing.T, original vc.VerifiableCredential, mutate func(credentialSubject map[string]interface{})) (vc.VerifiableCredential, bool) {
		var asMap map[string]interface{}
		require.NoError(t, json.Unmarshal([]byte(original.Raw()), &asMap))
		mutate(asMap["credentialSubject"].(map[string]interface{}))
		tamperedJSON, _ := json.Marshal(asMap)
		tampered, err := vc.ParseVerifiableCredential(string(tamperedJSON))
		require.NoError(t, err)
		response, err := vcrAPI.VerifyVC(ctx, v2.VerifyVCRequestObject{Body: &v2.VerifyVCJSONRequestBody{VerifiableCredential: *tampered}})
		require.NoError(t, err)
		result := response.(v2.VerifyVC200JSONResponse)
		if result.Message != nil {
			t.Logf("verification message: %s", *result.Message)
		}
		t.Logf("altered credential: %s", tamperedJSON)
		return *tampered, result.Validity
	}

	t.Run("members hidden from the node through a term that is mapped to @nest (works with @protected contexts)", func(t *testing.T) {
		// NutsAuthorizationCredential that is restricted to a single patient ('subject') and a single resource
		request := v2.IssueVCRequest{
			CredentialSubject: map[string]interface{}{
				"id":           subjectDID.String(),
				"purposeOfUse": "eOverdracht-receiver",
				"subject":      "urn:oid:2.16.840.1.113883.2.4.6.3:123456780",
				"resources": []interface{}{
					map[string]interface{}{"path": "/Task/1", "operations": []string{"read"}, "userContext": false},
				},
			},
			Issuer:           issuerDID.String(),
			PublishToNetwork: &publish,
		}
		_ = request.Type.FromIssueVCRequestType0("NutsAuthorizationCredential")
		original := issueVC(t, vcrAPI, ctx, request)
		verifyVC(t, ctx, original, vcrAPI)

		tampered, valid := tamperAndVerify(t, original, func(cs map[string]interface{}) {
			cs["@context"] = map[string]interface{}{"ignored": "@nest"}
			cs["ignored"] = map[string]interface{}{"subject": cs["subject"], "resources": cs["resources"]}
			delete(cs, "subject")
			delete(cs, "resources")
		})

		// what the node reads from the altered credential
		var subjects []credential.NutsAuthorizationCredentialSubject
		require.NoError(t, tampered.UnmarshalCredentialSubject(&subjects))
		t.Logf("node reads: subject=%v resources=%v", subjects[0].Subject, subjects[0].Resources)
		assert.False(t, valid, "altered credential (patient and resource restriction moved out of sight) must not verify")
	})

	t.Run("claims swapped through redefined terms (contexts without @protected, e.g. the built-in https://schema.org)", func(t *testing.T) {
		request := v2.IssueVCRequest{
			Context: func() *v2.IssueVCRequest_Context {
				c := new(v2.IssueVCRequest_Context)
				_ = c.FromIssueVCRequestContext1([]string{"https://www.w3.org/2018/credentials/v1", "https://schema.org"})
				return c
			}(),
			CredentialSubject: map[string]interface{}{
				"id":         subjectDID.String(),
				"givenName":  "Alice",
				"familyName": "Bob",
			},
			Issuer:           issuerDID.String(),
			PublishToNetwork: &publish,
		}
		_ = request.Type.FromIssueVCRequestType0("HumanCredential")
		original := issueVC(t, vcrAPI, ctx, request)
		verifyVC(t, ctx, original, vcrAPI)

		tampered, valid := tamperAndVerify(t, original, func(cs map[string]interface{}) {
			cs["@context"] = map[string]interface{}{
				"givenName":  "http://schema.org/familyName",
				"familyName": "http://schema.org/givenName",
			}
			cs["givenName"], cs["familyName"] = cs["familyName"], cs["givenName"]
		})
		var subjects []map[string]interface{}
		require.NoError(t, tampered.UnmarshalCredentialSubject(&subjects))
		t.Logf("node reads: givenName=%v familyName=%v", subjects[0]["givenName"], subjects[0]["familyName"])
		assert.False(t, valid, "altered credential (givenName and familyName swapped) must not verify")
	})
}
