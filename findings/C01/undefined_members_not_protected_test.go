// Package directory: vcr/verifier   (copy this file to vcr/verifier/zz_scratch_unmodified_test.go)
//
// Scratch test for an observation on the UNMODIFIED code (not a seeded change):
// verifier.Verify accepts a JSON-LD credential to which members were added that are not defined by the credential's JSON-LD
// context. URDNA2015 canonicalization silently drops undefined terms, so they are not covered by the signature, and the
// verifier (unlike the issuer, which calls jsonld.AllFieldsDefined) never checks for them.
// The test asserts the property ("added members at any depth make verification fail"), so the sub-tests named "tampered"
// are EXPECTED TO FAIL on the unmodified code; the control sub-tests pass.
package verifier

import (
	"crypto"
	"encoding/json"
	"path"
	"testing"
	"time"

	"github.com/google/uuid"
	ssi "github.com/nuts-foundation/go-did"
	"github.com/nuts-foundation/go-did/did"
	"github.com/nuts-foundation/go-did/vc"
	"github.com/nuts-foundation/nuts-node/audit"
	nutsCrypto "github.com/nuts-foundation/nuts-node/crypto"
	"github.com/nuts-foundation/nuts-node/jsonld"
	"github.com/nuts-foundation/nuts-node/storage/orm"
	"github.com/nuts-foundation/nuts-node/test/io"
	"github.com/nuts-foundation/nuts-node/vcr/credential"
	"github.com/nuts-foundation/nuts-node/vcr/revocation"
	"github.com/nuts-foundation/nuts-node/vcr/signature"
	"github.com/nuts-foundation/nuts-node/vcr/signature/proof"
	"github.com/nuts-foundation/nuts-node/vcr/trust"
	"github.com/nuts-foundation/nuts-node/vdr/resolver"
	"github.com/stretchr/testify/assert"
	"github.com/stretchr/testify/require"
	"go.uber.org/mock/gomock"
)

type verifReplayDIDResolver map[string]*did.Document

func (s verifReplayDIDResolver) Resolve(id did.DID, _ *resolver.ResolveMetadata) (*did.Document, *resolver.DocumentMetadata, error) {
	if doc, ok := s[id.String()]; ok {
		return doc, &resolver.DocumentMetadata{}, nil
	}
	return nil, nil, resolver.ErrNotFound
}

func TestVerifReplayUndefinedMembersAreNotProtected(t *testing.T) {
	ctx := audit.TestContext()
	issuerDID := did.MustParseDID("did:web:issuer.example.com")
	holderDID := did.MustParseDID("did:web:holder.example.com")
	kid := issuerDID.String() + "#assertion-key"

	keyStore := nutsCrypto.NewMemoryCryptoInstance(t)
	var publicKey crypto.PublicKey
	_, publicKey, err := keyStore.New(ctx, nutsCrypto.StringNamingFunc(kid))
	require.NoError(t, err)
	issuerDocument := did.Document{ID: issuerDID}
	vm, err := did.NewVerificationMethod(did.MustParseDIDURL(kid), ssi.JsonWebKey2020, issuerDID, publicKey)
	require.NoError(t, err)
	issuerDocument.AddAssertionMethod(vm)

	didResolver := verifReplayDIDResolver{issuerDID.String(): &issuerDocument}
	jsonldManager := jsonld.NewTestJSONLDManager(t)
	ctrl := gomock.NewController(t)
	verifierStore := NewMockStore(ctrl)
	verifierStore.EXPECT().GetRevocations(gomock.Any()).Return(nil, ErrNotFound).AnyTimes()
	trustConfig := trust.NewConfig(path.Join(io.TestDirectory(t), "trust.yaml"))
	sut := NewVerifier(verifierStore, didResolver, resolver.DIDKeyResolver{Resolver: didResolver}, jsonldManager, trustConfig, revocation.NewStatusList2021(orm.NewTestDatabase(t), nil, ""))

	// a properly issued and signed credential, as JSON
	credentialID := ssi.MustParseURI(issuerDID.String() + "#" + uuid.NewString())
	issuanceDate := time.Now().Add(-time.Minute).Truncate(time.Second)
	unsigned := vc.VerifiableCredential{
		Context:      []ssi.URI{vc.VCContextV1URI(), credential.NutsV1ContextURI},
		ID:           &credentialID,
		Type:         []ssi.URI{vc.VerifiableCredentialTypeV1URI(), *credential.NutsOrganizationCredentialTypeURI},
		Issuer:       issuerDID.URI(),
		IssuanceDate: issuanceDate,
		CredentialSubject: []interface{}{map[string]interface{}{
			"id":           holderDID.String(),
			"organization": map[string]interface{}{"name": "Because we care B.V.", "city": "Eibergen"},
		}},
	}
	asJSON, _ := json.Marshal(unsigned)
	document := proof.Document{}
	require.NoError(t, json.Unmarshal(asJSON, &document))
	signed, err := proof.NewLDProof(proof.ProofOptions{Created: issuanceDate}).
		Sign(ctx, document, signature.JSONWebSignature2020{ContextLoader: jsonldManager.DocumentLoader(), Signer: keyStore}, kid)
	require.NoError(t, err)
	signedJSON, err := json.Marshal(signed)
	require.NoError(t, err)
	// sanity: the issuer-side check accepts the credential as issued
	require.NoError(t, jsonld.AllFieldsDefined(jsonldManager.DocumentLoader(), signedJSON))

	// tamper applies the mutation to the signed JSON document and parses the result
	tamper := func(t *testing.T, mutate func(doc map[string]interface{})) (vc.VerifiableCredential, []byte) {
		var doc map[string]interface{}
		require.NoError(t, json.Unmarshal(signedJSON, &doc))
		mutate(doc)
		tampered, err := json.Marshal(doc)
		require.NoError(t, err)
		result, err := vc.ParseVerifiableCredential(string(tampered))
		require.NoError(t, err)
		return *result, tampered
	}

	t.Run("control - untampered credential verifies", func(t *testing.T) {
		cred, _ := tamper(t, func(doc map[string]interface{}) {})
		assert.NoError(t, sut.Verify(cred, true, true, nil))
	})
	t.Run("control - changing a defined member is detected", func(t *testing.T) {
		cred, _ := tamper(t, func(doc map[string]interface{}) {
			doc["credentialSubject"].(map[string]interface{})["organization"].(map[string]interface{})["city"] = "Amsterdam"
		})
		assert.Error(t, sut.Verify(cred, true, true, nil))
	})
	t.Run("tampered - member added to credentialSubject", func(t *testing.T) {
		cred, tampered := tamper(t, func(doc map[string]interface{}) {
			doc["credentialSubject"].(map[string]interface{})["role"] = "administrator"
		})
		// the issuer-side check knows this member is not protected by the signature
		require.Error(t, jsonld.AllFieldsDefined(jsonldManager.DocumentLoader(), tampered))
		// the added member is part of what the node reports (and e.g. Presentation Exchange constraints can match on it)
		reported, _ := json.Marshal(cred)
		require.Contains(t, string(reported), `"role":"administrator"`)

		assert.Error(t, sut.Verify(cred, true, true, nil), "credential with an added (unsigned) claim must not verify")
	})
	t.Run("tampered - member added to nested object", func(t *testing.T) {
		cred, tampered := tamper(t, func(doc map[string]interface{}) {
			doc["credentialSubject"].(map[string]interface{})["organization"].(map[string]interface{})["accreditation"] = "level-3"
		})
		require.Error(t, jsonld.AllFieldsDefined(jsonldManager.DocumentLoader(), tampered))
		reported, _ := json.Marshal(cred)
		require.Contains(t, string(reported), `"accreditation":"level-3"`)

		assert.Error(t, sut.Verify(cred, true, true, nil), "credential with an added (unsigned) claim must not verify")
	})
}
