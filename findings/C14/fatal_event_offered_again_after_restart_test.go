// Belongs in package directory: network/dag (package dag)
//
// Scratch tests for property C14 against the UNMODIFIED code. Every test asserts the property as stated; a FAILING
// test therefore shows an input/history for which the unmodified code does not satisfy the statement.

package dag

import (
	"context"
	"errors"
	"path"
	"sync/atomic"
	"testing"
	"time"

	"github.com/nuts-foundation/go-stoabs"
	"github.com/nuts-foundation/nuts-node/storage"
	"github.com/nuts-foundation/nuts-node/test/io"
	"github.com/stretchr/testify/assert"
	"github.com/stretchr/testify/require"
)

// B: a subscriber that reported a fatal error is called again at every restart: Run() notifies every event on the shelf,
// also the ones with Retries >= maxRetries (fatal or budget spent). (If the fatal error is reported for the first time
// during Run() itself, Run() looks at the stale retry count and also starts a retry goroutine that calls the receiver
// once more; Notify() does not do that.)
func TestVerifReplayFatalSubscriberCalledAgainAfterRestart(t *testing.T) {
	ctx := context.Background()
	kvStore := storage.CreateTestBBoltStore(t, path.Join(io.TestDirectory(t), "test.db"))
	transaction, _, _ := CreateTestTransaction(0)
	event := Event{Type: TransactionEventType, Hash: transaction.Ref(), Transaction: transaction}
	var calls atomic.Int64
	receiver := func(event Event) (bool, error) {
		calls.Add(1)
		return false, EventFatal{Err: errors.New("fatal")}
	}
	first := NewNotifier("scratch_b", receiver, WithPersistency(kvStore), WithRetryDelay(time.Millisecond))
	require.NoError(t, kvStore.Write(ctx, func(tx stoabs.WriteTx) error { return first.Save(tx, event) }))
	first.Notify(event)
	require.Equal(t, int64(1), calls.Load())
	_ = first.Close()

	restarted := NewNotifier("scratch_b", receiver, WithPersistency(kvStore), WithRetryDelay(time.Millisecond))
	t.Cleanup(func() { _ = restarted.Close() })
	require.NoError(t, restarted.Run())
	time.Sleep(200 * time.Millisecond)

	assert.Equal(t, int64(1), calls.Load(), "subscriber that reported a fatal error was called again after the restart")
}

