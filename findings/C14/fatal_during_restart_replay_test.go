// Package directory: network/dag (package dag). Scratch tests for C14 on the UNMODIFIED code.
// Each test asserts what the property demands; a failing test shows a history for which the unmodified code
// does not behave as the property says.
package dag

import (
	"context"
	"encoding/json"
	"errors"
	"path"
	"sync/atomic"
	"testing"
	"time"

	"github.com/nuts-foundation/go-stoabs"
	"github.com/nuts-foundation/nuts-node/crypto/hash"
	"github.com/nuts-foundation/nuts-node/storage"
	"github.com/nuts-foundation/nuts-node/test/io"
	"github.com/stretchr/testify/assert"
	"github.com/stretchr/testify/require"
)

// A: the node was stopped during retries; at the restart replay the subscriber reports a FATAL error.
// Run() puts every event whose replay failed (also a fatal one) in the retry loop, whose first attempt is immediate:
// the subscriber is called once more after it reported the fatal error.
func TestVerifReplayFatalDuringRestartReplayIsNotRetried(t *testing.T) {
	ctx := context.Background()
	kvStore := storage.CreateTestBBoltStore(t, path.Join(io.TestDirectory(t), "test.db"))
	tx, _, _ := CreateTestTransaction(0)
	var calls atomic.Int64
	s := NewNotifier("scratch", func(event Event) (bool, error) {
		calls.Add(1)
		return false, EventFatal{Err: errors.New("fatal")}
	}, WithPersistency(kvStore), WithRetryDelay(time.Millisecond)).(*notifier)
	defer s.Close()
	// left behind by the previous run: 3 failed attempts
	require.NoError(t, kvStore.WriteShelf(ctx, s.shelfName(), func(writer stoabs.Writer) error {
		bytes, _ := json.Marshal(Event{Type: PayloadEventType, Hash: tx.Ref(), Retries: 3, Transaction: tx, Error: "some error"})
		return writer.Put(stoabs.BytesKey(tx.Ref().Slice()), bytes)
	}))

	require.NoError(t, s.Run())
	time.Sleep(200 * time.Millisecond)

	assert.Equal(t, int64(1), calls.Load(), "after a fatal error the subscriber must not be called again")
}

// B: the payload of a transaction is written twice (network/transport/v2 handleTransactionPayload does not look whether
// the payload is already there; handlePrivateTxRetry sends the query to every participant it is connected to, so
// two answers for one transaction are normal). The subscriber completed the event after the first write;
// the second write saves the event again (completion is only recorded as absence from the shelf) and delivers it again.
func TestScratch_B_SecondWritePayloadRedeliversCompletedEvent(t *testing.T) {
	ctx := context.Background()
	kvStore := storage.CreateTestBBoltStore(t, path.Join(io.TestDirectory(t), "test.db"))
	s, err := NewState(kvStore)
	require.NoError(t, err)
	require.NoError(t, s.Start())
	defer s.Shutdown()
	var calls atomic.Int64
	_, err = s.Notifier("scratch", func(event Event) (bool, error) {
		calls.Add(1)
		return true, nil
	}, WithPersistency(kvStore), WithSelectionFilter(func(event Event) bool { return event.Type == PayloadEventType }))
	require.NoError(t, err)

	payload := []byte("private payload")
	tx, _, _ := CreateTestTransactionEx(1, hash.SHA256Sum(payload), EncryptedPAL{[]byte("pal")})
	require.NoError(t, s.Add(ctx, tx, nil))
	require.NoError(t, s.WritePayload(ctx, tx, tx.PayloadHash(), payload))
	require.Equal(t, int64(1), calls.Load())

	require.NoError(t, s.WritePayload(ctx, tx, tx.PayloadHash(), payload)) // answer of the second participant

	assert.Equal(t, int64(1), calls.Load(), "completion was recorded, the subscriber must not be called again for this event")
}

// C: completion is recorded (Notifier.Finished, as handleTransactionPayload does for the 'private' subscriber) while the
// receiver is still busy with the same event and then reports 'incomplete': notifyNow writes the event back with an
// incremented retry count, i.e. the finished job is back on the shelf and the subscriber is called again.
func TestScratch_C_FinishedJobIsResurrectedByConcurrentAttempt(t *testing.T) {
	ctx := context.Background()
	kvStore := storage.CreateTestBBoltStore(t, path.Join(io.TestDirectory(t), "test.db"))
	tx, _, _ := CreateTestTransaction(0)
	var calls atomic.Int64
	var s *notifier
	s = NewNotifier("scratch", func(event Event) (bool, error) {
		if calls.Add(1) == 1 {
			// the answer to the query arrives (other goroutine in reality) before this attempt is booked
			_ = s.Finished(event.Hash)
		}
		return false, nil
	}, WithPersistency(kvStore), WithRetryDelay(10*time.Millisecond)).(*notifier)
	defer s.Close()
	event := Event{Type: TransactionEventType, Hash: tx.Ref(), Transaction: tx}
	require.NoError(t, kvStore.Write(ctx, func(tx stoabs.WriteTx) error { return s.Save(tx, event) }))

	s.Notify(event)
	time.Sleep(200 * time.Millisecond)

	assert.Equal(t, int64(1), calls.Load(), "completion was recorded during the first call, no further calls expected")
}

// E: the transaction event and the payload event of one transaction have the same key on the shelf (the transaction ref).
// A persistent subscriber whose filter selects both gets only one of them.
func TestScratch_E_SubscriberOfBothEventTypesGetsOnlyOne(t *testing.T) {
	ctx := context.Background()
	kvStore := storage.CreateTestBBoltStore(t, path.Join(io.TestDirectory(t), "test.db"))
	s, err := NewState(kvStore)
	require.NoError(t, err)
	require.NoError(t, s.Start())
	defer s.Shutdown()
	var txEvents, payloadEvents atomic.Int64
	_, err = s.Notifier("scratch", func(event Event) (bool, error) {
		switch event.Type {
		case TransactionEventType:
			txEvents.Add(1)
		case PayloadEventType:
			payloadEvents.Add(1)
		}
		return true, nil
	}, WithPersistency(kvStore)) // no filter: selects everything
	require.NoError(t, err)

	payload := []byte("payload")
	tx, _, _ := CreateTestTransactionEx(1, hash.SHA256Sum(payload), nil)
	require.NoError(t, s.Add(ctx, tx, payload))

	assert.Equal(t, int64(1), txEvents.Load(), "transaction event delivered")
	assert.Equal(t, int64(1), payloadEvents.Load(), "payload event delivered")
}
