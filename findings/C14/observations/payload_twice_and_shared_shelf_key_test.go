package dag

import (
	"context"
	"path"
	"sync"
	"testing"

	"github.com/nuts-foundation/nuts-node/storage"
	"github.com/nuts-foundation/nuts-node/test/io"
	"github.com/stretchr/testify/assert"
	"github.com/stretchr/testify/require"
)

// A payload that is received twice for the same transaction (v2 handleTransactionPayload calls state.WritePayload for every
// TransactionPayload message, e.g. when two peers answer the payload query) is delivered a second time although the
// subscriber's completion for that event was recorded (the job was deleted, so Save schedules it as a new event).
func TestExistingDefect_PayloadReceivedTwiceIsDeliveredAfterCompletion(t *testing.T) {
	ctx := context.Background()
	kvStore := storage.CreateTestBBoltStore(t, path.Join(io.TestDirectory(t), "test.db"))
	s, err := NewState(kvStore)
	require.NoError(t, err)
	require.NoError(t, s.Start())
	defer s.Shutdown()

	var mux sync.Mutex
	calls := 0
	_, err = s.Notifier("seed", func(event Event) (bool, error) {
		mux.Lock()
		defer mux.Unlock()
		calls++
		return true, nil
	}, WithPersistency(kvStore), WithSelectionFilter(func(event Event) bool {
		return event.Type == PayloadEventType
	}))
	require.NoError(t, err)

	// private transaction: admitted without payload
	tx := CreateTestTransactionWithJWK(1)
	require.NoError(t, s.Add(ctx, tx, nil))
	// the payload arrives from peer A, and once more from peer B
	require.NoError(t, s.WritePayload(ctx, tx, tx.PayloadHash(), seedPayloadED(1)))
	require.NoError(t, s.WritePayload(ctx, tx, tx.PayloadHash(), seedPayloadED(1)))

	mux.Lock()
	defer mux.Unlock()
	assert.Equal(t, 1, calls, "receiver called again after its completion was recorded")
}

// A persistent subscriber whose filter selects both event types gets a single call for a transaction that is added with
// its payload: both events are stored under the transaction ref, so Save skips the second one.
func TestExistingDefect_SubscriberOfBothTypesGetsOneEvent(t *testing.T) {
	ctx := context.Background()
	kvStore := storage.CreateTestBBoltStore(t, path.Join(io.TestDirectory(t), "test.db"))
	s, err := NewState(kvStore)
	require.NoError(t, err)
	require.NoError(t, s.Start())
	defer s.Shutdown()

	var mux sync.Mutex
	var types []string
	_, err = s.Notifier("seed", func(event Event) (bool, error) {
		mux.Lock()
		defer mux.Unlock()
		types = append(types, event.Type)
		return true, nil
	}, WithPersistency(kvStore))
	require.NoError(t, err)

	tx := CreateTestTransactionWithJWK(1)
	require.NoError(t, s.Add(ctx, tx, seedPayloadED(1)))

	mux.Lock()
	defer mux.Unlock()
	assert.ElementsMatch(t, []string{TransactionEventType, PayloadEventType}, types)
}

func seedPayloadED(num uint32) []byte {
	return []byte{byte(num >> 24), byte(num >> 16), byte(num >> 8), byte(num)}
}
