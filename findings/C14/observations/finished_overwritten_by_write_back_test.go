package dag

import (
	"context"
	"sync/atomic"
	"testing"
	"time"

	"github.com/nuts-foundation/nuts-node/test/io"
	"github.com/stretchr/testify/assert"
	"github.com/stretchr/testify/require"
)

// Completion recorded (Notifier.Finished, e.g. handleTransactionPayload after the payload arrived) while the receiver is
// running and the receiver then reports "incomplete": notifyNow writes the event back and thereby resurrects the job.
func TestExistingDefect_FinishedDuringDeliveryIsResurrected(t *testing.T) {
	db := createBBoltDB(io.TestDirectory(t))
	t.Cleanup(func() { _ = db.Close(context.Background()) })
	s, err := NewState(db)
	require.NoError(t, err)
	var calls atomic.Int32
	var n Notifier
	n, err = s.Notifier("seed", func(event Event) (bool, error) {
		calls.Add(1)
		// the query was sent, the answer arrives and is processed on another goroutine before we return
		_ = n.Finished(event.Hash)
		return false, nil
	}, WithPersistency(db), WithRetryDelay(5*time.Millisecond), WithSelectionFilter(func(e Event) bool { return e.Type == TransactionEventType }))
	require.NoError(t, err)
	defer n.Close()

	tx, _, _ := CreateTestTransaction(1)
	require.NoError(t, s.Add(context.Background(), tx, nil))
	time.Sleep(300 * time.Millisecond)

	assert.Equal(t, int32(1), calls.Load(), "receiver called again after its completion was recorded")
}

// The shelf is keyed by transaction ref only, the transaction event and the payload event of one transaction share the key:
// a persistent subscriber whose filter selects both gets only one of them.
func TestExistingDefect_TxAndPayloadEventShareKey(t *testing.T) {
	db := createBBoltDB(io.TestDirectory(t))
	t.Cleanup(func() { _ = db.Close(context.Background()) })
	s, err := NewState(db)
	require.NoError(t, err)
	var txEvents, payloadEvents atomic.Int32
	n, err := s.Notifier("seed", func(event Event) (bool, error) {
		if event.Type == TransactionEventType {
			txEvents.Add(1)
		} else {
			payloadEvents.Add(1)
		}
		return true, nil
	}, WithPersistency(db))
	require.NoError(t, err)
	defer n.Close()

	tx, _, _ := CreateTestTransaction(1)
	require.NoError(t, s.Add(context.Background(), tx, []byte{0, 0, 0, 1}))

	assert.Equal(t, int32(1), payloadEvents.Load(), "payload event")
	assert.Equal(t, int32(1), txEvents.Load(), "transaction event")
}
