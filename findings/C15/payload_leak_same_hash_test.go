package v2

import (
	"context"
	"crypto/ecdsa"
	"crypto/elliptic"
	"crypto/rand"
	"path"
	"testing"
	"time"

	gocrypto "crypto"

	"github.com/nuts-foundation/go-did/did"
	"github.com/nuts-foundation/nuts-node/crypto"
	"github.com/nuts-foundation/nuts-node/crypto/hash"
	"github.com/nuts-foundation/nuts-node/network/dag"
	"github.com/nuts-foundation/nuts-node/network/transport"
	"github.com/nuts-foundation/nuts-node/network/transport/grpc"
	"github.com/nuts-foundation/nuts-node/storage"
	"github.com/nuts-foundation/nuts-node/test/io"
	"github.com/nuts-foundation/nuts-node/vdr/resolver"
	"github.com/stretchr/testify/assert"
	"github.com/stretchr/testify/require"
)

type defectKeyResolver map[string]*ecdsa.PublicKey

func (r defectKeyResolver) ResolveKeyByID(string, *resolver.ResolveMetadata, resolver.RelationType) (gocrypto.PublicKey, error) {
	return nil, resolver.ErrKeyNotFound
}

func (r defectKeyResolver) ResolveKey(id did.DID, _ *time.Time, _ resolver.RelationType) (string, gocrypto.PublicKey, error) {
	if key, ok := r[id.String()]; ok {
		return id.String() + "#kak", key, nil
	}
	return "", nil, resolver.ErrNotFound
}

type defectDecrypter map[string]*ecdsa.PrivateKey

func (d defectDecrypter) Decrypt(_ context.Context, kid string, ciphertext []byte) ([]byte, error) {
	key, ok := d[kid]
	if !ok {
		return nil, crypto.ErrPrivateKeyNotFound
	}
	return crypto.EciesDecrypt(key, ciphertext)
}

type defectDIDResolver struct{ doc did.Document }

func (d defectDIDResolver) Resolve(id did.DID, _ *resolver.ResolveMetadata) (*did.Document, *resolver.DocumentMetadata, error) {
	if !id.Equals(d.doc.ID) {
		return nil, nil, resolver.ErrNotFound
	}
	return &d.doc, &resolver.DocumentMetadata{}, nil
}

// EXISTING DEFECT (fails on the unchanged tree).
// The payload store is keyed by payload hash only and handleTransactionPayloadQuery reads tx.PayloadHash() of the
// transaction that was *asked for*. The payload hash of a private transaction is public (it is in the transaction).
// So node C, which is NOT a participant of private transaction tx1 (participants A and B), can publish its own private
// transaction tx2 with the same payload hash and participant list {B, C} - it does not need the payload for that, private
// transactions travel without payload - and then ask B for "the payload of tx2". B is on tx2's list, C is on tx2's list,
// the connection is authenticated: B answers with the bytes it stores under that hash, i.e. tx1's payload.
func TestExistingDefect_PrivatePayloadLeaksThroughSecondTransactionWithSamePayloadHash(t *testing.T) {
	ctx := context.Background()
	nodeA := did.MustParseDID("did:nuts:nodeA")
	nodeB := did.MustParseDID("did:nuts:nodeB")
	nodeC := did.MustParseDID("did:nuts:nodeC") // the attacker
	keyA, _ := ecdsa.GenerateKey(elliptic.P256(), rand.Reader)
	keyB, _ := ecdsa.GenerateKey(elliptic.P256(), rand.Reader)
	keyC, _ := ecdsa.GenerateKey(elliptic.P256(), rand.Reader)
	keys := defectKeyResolver{nodeA.String(): &keyA.PublicKey, nodeB.String(): &keyB.PublicKey, nodeC.String(): &keyC.PublicKey}
	kakB := did.MustParseDIDURL(nodeB.String() + "#kak")

	// node B: real DAG state, real PAL decryption with B's keyAgreement key
	store := storage.CreateTestBBoltStore(t, path.Join(io.TestDirectory(t), "dag.db"))
	state, err := dag.NewState(store)
	require.NoError(t, err)
	require.NoError(t, state.Start())
	t.Cleanup(func() { _ = state.Shutdown() })
	p := New(DefaultConfig(), nodeB, state,
		defectDIDResolver{doc: did.Document{ID: nodeB, KeyAgreement: []did.VerificationRelationship{{VerificationMethod: &did.VerificationMethod{ID: kakB}}}}},
		defectDecrypter{kakB.String(): keyB}, nil, store).(*protocol)

	// tx1: private between A and B; B has received the payload (it is a participant)
	secret := []byte("secret between A and B")
	pal1, err := dag.PAL{nodeA, nodeB}.Encrypt(keys)
	require.NoError(t, err)
	tx1, _, _ := dag.CreateTestTransactionEx(1, hash.SHA256Sum(secret), pal1)
	require.NoError(t, state.Add(ctx, tx1, nil))
	require.NoError(t, state.WritePayload(ctx, tx1, hash.SHA256Sum(secret), secret))

	// tx2: made by C, who only knows tx1 (and thereby its payload hash), not the payload
	pal2, err := dag.PAL{nodeB, nodeC}.Encrypt(keys)
	require.NoError(t, err)
	tx2, _, _ := dag.CreateTestTransactionEx(2, tx1.PayloadHash(), pal2, tx1)
	require.NoError(t, state.Add(ctx, tx2, nil)) // arrives at B through gossip / TransactionList, without payload

	// sanity: C is not on tx1's list and asking for tx1 is refused
	connC := grpc.NewStubConnection(transport.Peer{ID: "c", Address: "c:5555", NodeDID: nodeC, Authenticated: true})
	require.NoError(t, p.handleTransactionPayloadQuery(ctx, connC, &Envelope{Message: &Envelope_TransactionPayloadQuery{&TransactionPayloadQuery{TransactionRef: tx1.Ref().Slice()}}}))
	require.Len(t, connC.SentMsgs, 1)
	require.Empty(t, connC.SentMsgs[0].(*Envelope).GetTransactionPayload().Data)

	// C asks for "tx2's payload"
	require.NoError(t, p.handleTransactionPayloadQuery(ctx, connC, &Envelope{Message: &Envelope_TransactionPayloadQuery{&TransactionPayloadQuery{TransactionRef: tx2.Ref().Slice()}}}))
	require.Len(t, connC.SentMsgs, 2)
	sent := connC.SentMsgs[1].(*Envelope).GetTransactionPayload().Data

	assert.NotEqual(t, secret, sent, "B sent the payload of tx1 (participants A,B) to C, which is not on tx1's participant list")
}
