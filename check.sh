#!/bin/sh
# check.sh <Cnn> <quick|thorough>: rebuilds govc if needed and checks one property against /repo's working tree.
# thorough additionally re-runs the property's must-fail corpus (selftest/<Cnn>/*.patch) on a scratch copy of
# the working tree and reports how many mutants the check still kills; that report is informational (a
# surviving mutant is a weakness of the check, not a violation of the property by the tree) and never
# changes the exit code.
cd "$(dirname "$0")"
export GOFLAGS=-mod=mod GOPROXY=off GOSUMDB=off GOTOOLCHAIN=local
if [ ! -x bin/govc ] || [ -n "$(find govc -name '*.go' -newer bin/govc 2>/dev/null | head -1)" ]; then
  ./setup.sh >/dev/null 2>&1 || { echo "UNDECIDED property=$1 reason=\"govc does not build\""; exit 3; }
fi
if [ "${2:-quick}" = "thorough" ]; then
  ./bin/govc check --property "$1" --tier thorough
  rc=$?
  if [ $rc -eq 0 ] && [ -d "selftest/$1" ]; then
    ./bin/govc selftest --property "$1" 2>&1 | sed -e 's/^selftest:/SELFTEST property='"$1"':/' | grep -v '^VIOLATION' | tail -20
  fi
  exit $rc
fi
exec ./bin/govc check --property "$1" --tier quick
