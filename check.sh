#!/bin/sh
# check.sh <Cnn> <quick|thorough>: rebuilds govc if needed and checks one property against /repo's working tree.
cd "$(dirname "$0")"
export GOFLAGS=-mod=mod GOPROXY=off GOSUMDB=off GOTOOLCHAIN=local
if [ ! -x bin/govc ] || [ -n "$(find govc -name '*.go' -newer bin/govc 2>/dev/null | head -1)" ]; then
  ./setup.sh >/dev/null 2>&1 || { echo "UNDECIDED property=$1 reason=\"govc does not build\""; exit 3; }
fi
exec ./bin/govc check --property "$1" --tier "${2:-quick}"
